#!/bin/bash
# seedrun.sh <seed id> <check id>... : apply /verif/seeded/<id>/patch.diff to /repo, run the quick checks, undo.
set -u
ID=$1; shift
cd /repo || exit 2
if [ -n "$(git status --porcelain)" ]; then echo "/repo not clean"; exit 2; fi
git apply /verif/seeded/$ID/patch.diff || { echo "patch does not apply"; exit 2; }
trap 'git -C /repo checkout -- . ; git -C /repo status --porcelain' EXIT
cd /verif
for c in "$@"; do
  VERIF_BUDGET_S=${VERIF_BUDGET_S:-2400} VERIF_EVIDENCE_DIR=/tmp/seedev VERIF_REPLAY_DIR=/tmp/seedreplays ./check $c --tier quick > /tmp/seedrun-$ID-$c.log 2>&1; rc=$?
  n=$(grep -c '^VIOLATION' /tmp/seedrun-$ID-$c.log)
  echo "seed=$ID check=$c exit=$rc violations=$n $(grep -m1 -A1 '^VIOLATION' /tmp/seedrun-$ID-$c.log | tail -1 | cut -c1-200)"
done
