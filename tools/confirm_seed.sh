#!/bin/bash
# confirm_seed.sh <src dir with patch.diff + demo_test.go|demo.sh> <seed id>
# Confirms in a scratch worktree of /repo HEAD: demo passes without the patch, fails with it,
# and the baseline suite (tag off) still passes with it.  Then stores it under /verif/seeded/<id>/.
set -u
SRC=$1; ID=$2
export GOFLAGS=-mod=mod GOPROXY=off GOSUMDB=off GOTOOLCHAIN=local
WT=/tmp/wt/confirm-$ID
git -C /repo worktree remove --force $WT 2>/dev/null
git -C /repo worktree add -q --detach $WT HEAD || exit 2
cleanup() { git -C /repo worktree remove --force $WT; }
trap cleanup EXIT
PKG=ion
if grep -q '^package main' $SRC/demo_test.go 2>/dev/null; then PKG=cmd/ion-go; fi
cp $SRC/demo_test.go $WT/$PKG/seed_demo_test.go
TESTNAME=$(grep -o 'func TestSeedDemo[0-9A-Za-z_]*' $SRC/demo_test.go | head -1 | sed 's/func //')
cd $WT
echo "== demo without patch (must pass)"
go test -vet=off -count=1 -run "^$TESTNAME\$" ./$PKG/ >/tmp/seedc-$ID.a 2>&1; A=$?
tail -3 /tmp/seedc-$ID.a
echo "== apply patch"
git apply $SRC/patch.diff || git apply -3 $SRC/patch.diff || { echo "PATCH DOES NOT APPLY"; exit 3; }
git diff HEAD --stat -- . ':!*_test.go' | tail -3
echo "== demo with patch (must fail)"
go test -vet=off -count=1 -run "^$TESTNAME\$" ./$PKG/ >/tmp/seedc-$ID.b 2>&1; B=$?
tail -5 /tmp/seedc-$ID.b
rm $WT/$PKG/seed_demo_test.go
echo "== baseline suite with patch (must pass)"
VERIF_REPO=$WT /verif/tools/baseline_off.py; C=$?
echo "RESULT demo_without=$A demo_with=$B baseline=$C"
if [ $A -eq 0 ] && [ $B -ne 0 ] && [ $C -eq 0 ]; then
  mkdir -p /verif/seeded/$ID
  git diff HEAD -- . ':!*_test.go' > /verif/seeded/$ID/patch.diff
  cp $SRC/demo_test.go /verif/seeded/$ID/demo_test.go
  cp $SRC/notes.md /verif/seeded/$ID/notes.md 2>/dev/null
  echo CONFIRMED
else
  echo NOT-CONFIRMED
fi
