#!/usr/bin/env python3
"""seedmeta.py <seed id> <property> <needs> <caught_by comma list> [<missed_by comma list>] — writes seeded/<id>/meta.json"""
import json, os, sys, subprocess
sid, prop, needs, caught = sys.argv[1:5]
missed = sys.argv[5] if len(sys.argv) > 5 else ""
d = os.path.join("/verif/seeded", sid)
head = subprocess.run(["git", "-C", "/repo", "rev-parse", "--short", "HEAD"], stdout=subprocess.PIPE, text=True).stdout.strip()
meta = dict(id=sid, breaks_property=prop, needs_to_manifest=needs,
            confirmed=dict(how="tools/confirm_seed.sh in a scratch worktree of /repo HEAD: demo passes without the patch, "
                               "fails with it; baseline suite (972 stable tests, tag off) passes with it", repo_head=head),
            ran="tools/seedrun.sh %s <checks> (git apply to /repo, ./check <id> --tier quick, git checkout -- .)" % sid,
            caught_by=[c for c in caught.split(",") if c], missed_by=[c for c in missed.split(",") if c])
json.dump(meta, open(os.path.join(d, "meta.json"), "w"), indent=1)
print("wrote", d)
