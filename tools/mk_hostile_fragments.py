#!/usr/bin/env python3
"""Writes spec/HostileFragments.tla: the readable text snippets of the hostile-input catalogue (C06) as byte
tuples.  The combinatorics (which snippet goes into which slot, the binary families) are in spec/Hostile.tla;
this script only spares typing byte codes."""
import os

# a slot is a document with a hole; the tail makes the reader use the table afterwards
TAIL = " $10 a::$11 {$12:$1} x"
SLOTS = [
 ("whole table", "$ion_symbol_table::", TAIL),
 ("symbols", "$ion_symbol_table::{symbols:", "}" + TAIL),
 ("symbols element", "$ion_symbol_table::{symbols:[\"a\",", ",\"b\"]}" + TAIL),
 ("imports", "$ion_symbol_table::{imports:", ",symbols:[\"a\"]}" + TAIL),
 ("imports element", "$ion_symbol_table::{imports:[", "],symbols:[\"a\"]}" + TAIL),
 ("import name", "$ion_symbol_table::{imports:[{name:", ",version:1,max_id:2}],symbols:[\"a\"]}" + TAIL),
 ("import version", "$ion_symbol_table::{imports:[{name:\"T\",version:", ",max_id:2}],symbols:[\"a\"]}" + TAIL),
 ("import max_id", "$ion_symbol_table::{imports:[{name:\"T\",version:1,max_id:", "}],symbols:[\"a\"]}" + TAIL),
 ("import max_id of an unknown table", "$ion_symbol_table::{imports:[{name:\"nope\",version:1,max_id:", "}]}" + TAIL),
 ("second table appending", "$ion_symbol_table::{symbols:[\"a\"]} $ion_symbol_table::{imports:$ion_symbol_table,symbols:", "}" + TAIL),
 ("table field repeated", "$ion_symbol_table::{symbols:[\"a\"],symbols:", ",imports:[],imports:null}" + TAIL),
 ("annotated table in a list", "[$ion_symbol_table::{symbols:", "}]" + TAIL),
 ("shared table struct", "$ion_shared_symbol_table::{name:\"T\",version:1,symbols:", "}" + TAIL),
 ("annotation", "", "::1" + TAIL),
 ("field name", "{", ":1}" + TAIL),
 ("plain value", "", TAIL),
]
NULLS = ["null", "null.null", "null.bool", "null.int", "null.float", "null.decimal", "null.timestamp", "null.symbol",
         "null.string", "null.clob", "null.blob", "null.list", "null.sexp", "null.struct"]
INSERTS = NULLS + ["0", "-1", "1", "2147483647", "2147483648", "4294967296", "9223372036854775807", "9223372036854775808",
                   "18446744073709551615", "18446744073709551616", "99999999999999999999999999999", "-99999999999999999999999999999",
                   "1e0", "1.5", "1d0", "\"\"", "\"T\"", "sym", "$0", "$1", "$3", "$10", "$99", "'$ion_symbol_table'", "[]", "{}", "()", "{{}}", "{{\"\"}}",
                   "2000T", "true", "[null]", "[null.string]", "[1]", "[[\"a\"]]", "{name:\"T\"}", "[{}]", "[{name:null.string,version:null.int,max_id:null.int}]",
                   "a::null.list", "$ion_symbol_table::{symbols:[\"q\"]}", "'''a''' '''b'''", "\"\\u0000\""]
EXTREMES = [
 "1e999999999", "1e-999999999", "1e2147483647", "1e2147483648", "1e99999999999999999999", "-1e-99999999999999999999",
 "1d2147483647", "1d2147483648", "1d-2147483648", "1d-2147483649", "0d2147483647", "0d99999999999999999999", "-0d-99999999999999999999",
 "1.0d+9999999999", "123456789012345678901234567890e1234567", "0.00000000000000000000000000000001d-2147483640", "1d4294967296", "1d-4294967297",
 "-0e0", "-0d0", "-0", "0e-0", "1e+0", "0x7fffffffffffffff", "0x8000000000000000", "-0x8000000000000000", "-0x8000000000000001", "0xffffffffffffffffffffffffffffffff",
 "0b" + "1" * 64, "-0b" + "1" * 65, "9223372036854775807", "-9223372036854775808", "-9223372036854775809",
 "9999-12-31T23:59:59.999999999999999999999999999999Z", "0001-01-01T00:00Z", "0001-01-01T00:00+23:59", "9999-12-31T23:59-23:59", "2000-01-01T00:00:00.0Z",
 "2000-01-01T00:00:00." + "0" * 40 + "1-00:00", "2000-01-01T23:59:59." + "9" * 40 + "+00:01", "0001T", "9999T", "2000-02-29T", "1900-02-28T",
 "$18446744073709551616", "$18446744073709551615", "$9223372036854775808", "$9223372036854775807", "$4294967296", "$2147483648", "$2147483647",
 "$99999999999999999999999::1", "{$99999999999999999999999:1}", "$00000000000000000001", "'$0'", "$0::$0", "{$0:$0}",
 "null.null.null", "null .int", "nan", "+inf", "-inf", "+inf::1", "nan::nan", "{nan:1}", "{+inf:1}", "(+inf -inf nan - + ++ -- . .. .+ //)", "(- 1)", "(-1)", "(--1)", "(1-1)",
 "{{}}", "{{ }}", "{{\"\"}}", "{{''''''}}", "{{'''a''' '''b'''}}", "{{ YQ== }}", "{{YQ ==}}", "{{Y Q = =}}", "{{====}}", "{{\"\\xff\\0\\a\\b\\t\\n\\f\\r\\v\\\"\\'\\?\\/\\\\\"}}",
 "\"\\U0010FFFF\\uFFFF\\x00\\0\"", "'''\\\n'''", "\"\\\n\"", "''", "''::''", "{'':''}", "'\\u0000'", "'\\U0010ffff'",
 "\"\\ud83d\\ude00\"", "'\\ud83d\\ude00'", "{a:\"\\ud83d\\ude00\"}", "[\"\\ud83d\\ude00\", 1]",
 "a.b", "a..b", "a:b", "a::b::c::d::e::f::1", "a :: b :: 1", "a::\n//c\n/*d*/b::1", "/**/", "//", "/", "/*", "/*/", "1//c\n2", "1/*c*/2", "[1,/*c*/2,//d\n3]",
 "\ufeff1", "\x00", "\x7f", "\x0b1\x0c2", "1\r2\r\n3", "\xc2\xa0", "\xef\xbb\xbf", "$ion_1_0", "$ion_1_0 $ion_1_0", "$ion_1_1", "$ion_2_0", "$ion_1_0::1", "'$ion_1_0'", "[$ion_1_0]",
 "$ion_symbol_table", "$ion_symbol_table::1", "$ion_symbol_table::[]", "$ion_symbol_table::()", "$ion_symbol_table::\"s\"", "$ion_symbol_table::$ion_symbol_table::{}",
 "a::$ion_symbol_table::{symbols:[\"x\"]} $10", "$ion_symbol_table::a::{symbols:[\"x\"]} $10", "$ion_symbol_table::{symbols:[\"x\"]}::1",
 "$ion_symbol_table::{imports:$ion_symbol_table} $10", "$ion_symbol_table::{imports:$ion_symbol_table,symbols:[\"a\"]} $10 $11",
 "$ion_symbol_table::{imports:[{name:\"T\",version:1,max_id:2},{name:\"T\",version:2,max_id:3},{name:\"a\",version:1,max_id:1}]} $10 $11 $12 $13 $14 $15 $16",
 "$ion_symbol_table::{imports:[{name:\"T\",version:99,max_id:5}]} $10 $14 $15", "$ion_symbol_table::{imports:[{name:\"T\",version:0,max_id:1}]} $10",
 "$ion_symbol_table::{imports:[{name:\"T\",version:-1,max_id:-1}]} $10", "$ion_symbol_table::{imports:[{name:\"$ion\",version:1,max_id:9}]} $10 $18",
 "$ion_symbol_table::{imports:[{name:\"\",version:1,max_id:1}]} $10", "$ion_symbol_table::{imports:[{name:\"T\",version:1}]} $10 $11 $12",
 "$ion_symbol_table::{imports:[{name:\"T\"}]} $10", "$ion_symbol_table::{imports:[{max_id:3}]} $10 $12", "$ion_symbol_table::{imports:[{}]} $10",
 "$ion_symbol_table::{imports:[[]]} $10", "$ion_symbol_table::{imports:[{name:\"T\",version:1,max_id:2,name:\"a\",version:2,max_id:9}]} $10 $18",
 "$ion_symbol_table::{symbols:[\"a\",\"a\",\"\",null,1,sym,[],\"$ion_symbol_table\",\"$10\"]} $10 $11 $12 $13 $14 $15 $16 $17 $18 $19",
]
# repetition families: pre unit^n post (expanded by the worker; n is chosen by the check)
REPS = [
 ("open lists", "", "[", ""), ("open sexps", "", "(", ""), ("open structs", "", "{a:", ""), ("nested lists closed", "", "[", "]"),  # post repeated by Hostile for closed forms
 ("annotations", "", "a::", "1"), ("digits", "", "9", ""), ("fraction digits", "1.", "9", ""), ("exponent digits", "1e", "9", ""),
 ("decimal exponent digits", "1d-", "9", ""), ("hex digits", "0x", "f", ""), ("binary digits", "0b", "1", ""), ("timestamp fraction", "2000-01-01T00:00:00.", "3", "Z"),
 ("string", "\"", "a", "\""), ("unterminated string", "\"", "a", ""), ("long string segments", "", "'''a''' ", ""), ("symbol", "", "a", ""), ("quoted symbol", "'", "a", "'"),
 ("block comment", "/*", "*", ""), ("line comments", "", "//\n", "1"), ("blob", "{{", "AAAA", "}}"), ("clob", "{{\"", "a", "\"}}"), ("whitespace", "", " ", "1"),
 ("escapes", "\"", "\\x41", "\""), ("values", "", "1 ", ""), ("struct fields", "{", "a:1,", "}"), ("list elements", "[", "1,", "]"), ("sexp operators", "(", "+ ", ")"),
 ("underscored digits", "1", "_1", ""), ("sid digits", "$", "1", ""), ("table symbols", "$ion_symbol_table::{symbols:[", "\"s\",", "]} $10"),
 ("tables", "", "$ion_symbol_table::{symbols:[\"s\"]} ", "$10"), ("appending tables", "", "$ion_symbol_table::{imports:$ion_symbol_table,symbols:[\"s\"]} ", "$10"),
 ("version markers", "", "$ion_1_0 ", "1"), ("colons", "a", ":", ""), ("minus signs", "(", "-", ")"), ("dots", "(", ".", ")"), ("quotes", "", "'", ""),
]


def tup(b):
    return "<<" + ", ".join(str(x) for x in b) + ">>"


def bs(s):
    return tup(s.encode("utf-8", "surrogatepass") if isinstance(s, str) else s)


def main():
    out = ["---------------------------- MODULE HostileFragments ----------------------------",
           "(* Readable text snippets of the hostile-input catalogue (C06) as byte tuples; generated by        *)",
           "(* tools/mk_hostile_fragments.py, which holds the spellings.                                        *)",
           "TextSlots == <<"]
    out.append(",\n".join('  [label |-> "%s", pre |-> %s, post |-> %s]' % (l, bs(a), bs(b)) for l, a, b in SLOTS))
    out.append(">>")
    out.append("TextInserts == <<")
    out.append(",\n".join("  " + bs(s) for s in INSERTS))
    out.append(">>")
    out.append("NTypedNulls == %d   \\* the first inserts are the typed nulls" % len(NULLS))
    out.append("TextExtremes == <<")
    out.append(",\n".join("  " + bs(s) for s in EXTREMES))
    out.append(">>")
    out.append("TextReps == <<")
    out.append(",\n".join('  [label |-> "%s", pre |-> %s, unit |-> %s, post |-> %s]' % (l, bs(a), bs(u), bs(b)) for l, a, u, b in REPS))
    out.append(">>")
    out.append("=" * 77)
    path = os.path.join(os.path.dirname(os.path.abspath(__file__)), "..", "spec", "HostileFragments.tla")
    with open(path, "w") as f:
        f.write("\n".join(out) + "\n")
    print("wrote", len(SLOTS), "slots,", len(INSERTS), "inserts,", len(EXTREMES), "extremes,", len(REPS), "repetition families")


if __name__ == "__main__":
    main()
