#!/usr/bin/env python3
"""Writes spec/MalformedCatalogue.tla: hand-enumerated malformed documents (each annotated with the rule it
breaks), as byte tuples.  The catalogue is part of the specification; this script only spares typing."""
import os
TEXT = [
 ("a::", "dangling annotation at end of input"), ("[a::]", "dangling annotation before ]"), ("(a::)", "dangling annotation before )"),
 ("{a:b::}", "dangling annotation before }"), ("{a:}", "field name without value"), ("{a}", "field name without colon"),
 ("{a:1,,}", "empty struct member"), ("[1,,2]", "empty list element"), ("[,1]", "leading comma"), ("(1,2)", "comma in sexp"),
 ("\"abc", "unterminated string"), ("'abc", "unterminated quoted symbol"), ("'''abc", "unterminated long string"),
 ("'''abc''", "unterminated long string (two quotes)"), ("/* abc", "unterminated block comment"), ("[1, 2", "unterminated list"),
 ("(1 2", "unterminated sexp"), ("{a:1", "unterminated struct"), ("{{aGk=", "unterminated blob"), ("{{\"abc\"", "unterminated clob"),
 ("\"a\\qb\"", "illegal escape"), ("\"a\\x1\"", "short \\x escape"), ("\"a\\u12\"", "short \\u escape"), ("\"a\nb\"", "raw newline in short string"),
 ("1_", "trailing underscore"), ("1__0", "double underscore"), ("0x_1", "underscore after radix prefix"), ("01", "leading zero"),
 ("1.e", "empty exponent"), ("1e", "empty exponent"), ("+1", "plus sign on a number"), ("null.foo", "unknown null type"), ("null.", "null. without type"),
 ("1a", "number followed by a letter"), ("1.2.3", "two decimal points"), ("0x", "radix prefix without digits"), ("0b2", "bad binary digit"),
 ("2000-13-01T", "month 13"), ("2000-00-01T", "month 0"), ("2000-02-30T", "February 30"), ("2001-02-29T", "February 29 in a common year"),
 ("2000-01-32T", "day 32"), ("2000-01-01T24:00Z", "hour 24"), ("2000-01-01T00:60Z", "minute 60"), ("2000-01-01T00:00:60Z", "second 60"),
 ("2000-01-01T00:00", "time without offset"), ("2000-01-01T00:00+24:00", "offset of 24 hours"), ("2000-01-01T00:00+00:60", "offset minute 60"),
 ("0000-01-01T", "year 0"), ("2000-1-01T", "one-digit month"), ("2000-01-01T00:00:00.Z", "fraction point without digits"),
 ("{{ab}}", "base64 length not a multiple of four"), ("{{a===}}", "bad base64 padding"), ("{{\"a\" \"b\"}}", "two short strings in a clob"),
 ("{{\"\\u0041\"}}", "\\u escape in a clob"), ("{{\"a\" // c\n}}", "comment in a clob"), ("{{ab$=}}", "bad base64 character"),
 ("]", "stray ]"), (")", "stray )"), ("}", "stray }"), ("[1}", "list closed by }"), ("{a:1]", "struct closed by ]"), ("(1]", "sexp closed by ]"),
 ("true::1", "keyword as annotation"), ("{null:1}", "keyword as field name"), ("+ 1", "operator outside a sexp"), ("[a b]", "list elements without comma"),
 ("{a:1 b:2}", "struct members without comma"), ("$99", "symbol id beyond max_id"), ("$99::1", "annotation symbol id beyond max_id"),
 ("{$99:1}", "field symbol id beyond max_id"), ("a:::1", "three colons"), ("{a::1}", "annotation where a field name is expected"),
 ("$ion_symbol_table::{imports:[{name:\"x\",version:1}]} 1", "import without max_id and without catalog match"),
 ("(a . :: b)", "the operator . as an annotation"), ("(.::1)", "the operator . as an annotation"), ("(+ :: 1)", "an operator as an annotation"),
 ("\"\\uD800\"", "lone high surrogate escape"), ("\"\\uDC00\"", "lone low surrogate escape"), ("\"\\U00110000\"", "escape beyond U+10FFFF"),
]
TEXT_BYTES = [
 ([34, 255, 34], "invalid UTF-8 byte in a string"), ([39, 195, 40, 39], "invalid UTF-8 sequence in a quoted symbol"),
 ([34, 237, 160, 128, 34], "UTF-8 encoded surrogate in a string"), ([34, 192, 128, 34], "overlong UTF-8 in a string"),
]
B = "e00100ea"
BIN = [
 ("12", "bool with length 2"), ("1e", "bool with length 14"), ("3100", "negative zero integer"), ("30", "negative zero integer (empty)"),
 ("43000000", "float of length 3"), ("4100", "float of length 1"), ("49000000000000000000", "float of length 9"),
 ("b4e00100ea", "version marker inside a list"), ("ef", "null annotation wrapper"), ("f0", "reserved type 15"), ("ff", "reserved type 15"),
 ("e3802101", "annotation wrapper without annotations"), ("e3818400", "annotation wrapper around a NOP pad"),
 ("e68184e3818421", "annotation wrapper around an annotation wrapper"), ("e481842101", "annotation wrapper longer than the wrapped value... (5 declared as 4)"),
 ("e58184210101", "annotation wrapper: wrapped value shorter than the wrapper"), ("e28184", "annotation wrapper without value"),
 ("e18184", "annotation wrapper of length 1"), ("d180", "sorted struct of length 0"), ("b62101", "list declares 6 bytes, input ends after 2"),
 ("8e9061", "string length overruns the input"), ("0500", "NOP pad overruns the input"), ("d184", "field id without value"),
 ("d28421", "value overruns struct"), ("b221", "int overruns list"), ("71ff", "symbol id beyond max_id"), ("e481ff2101", "annotation id beyond max_id"),
 ("d3ff2101", "field id beyond max_id"), ("82c328", "string with invalid UTF-8"), ("81ff", "string with invalid UTF-8 byte"),
 ("6380e40d", "timestamp month 13"), ("6380e400", "timestamp month 0"), ("6480e4829e", "timestamp February 30"), ("6580e4818198", "timestamp hour without minute"),
 ("6680e481819880", "timestamp hour 24"), ("6680e4818180bc", "timestamp minute 60"), ("6780e481818080bc", "timestamp second 60"),
 ("39000000000000000000", "negative zero integer padded to 9 bytes"), ("3e90" + "00" * 16, "negative zero integer padded to 16 bytes"),
 ("b239" + "00" * 9, "negative zero integer of 9 bytes overrunning a list"), ("ba39000000000000000000", "negative zero integer of 9 bytes in a list"),
 ("6180", "timestamp with an offset and no year"), ("6e820181", "timestamp with an offset and no year (long form)"),
 ("6a800fd08181808080ca81", "timestamp fraction -1d-10 (negative, rounds to zero nanoseconds)"), ("6a800fd08181808080c181", "timestamp fraction -1d-1"),
 ("62800f", "timestamp year unterminated varuint"), ("60", "empty timestamp"), ("6280a0", "timestamp year 0 ... (VarUInt 32? no: year 32)"),
 ("6780e481818080" + "80" , "timestamp ok control (second 0)"),
 ("b3210100", "list whose content does not end at its declared end (NOP ok control)"),
 ("21", "int of length 1 without payload"), ("2e", "L=14 without length"), ("8e", "L=14 without length"), ("be82", "list length overruns"),
 ("e98183d687b481618131", "local symbol table then nothing (control, valid)"),
 ("e98183d687b4816181", "local symbol table cut inside a symbol string"),
 ("e98183d687b481ff81312101", "local symbol table with a symbol text that is not UTF-8, then an int"),
 ("ea8183d787b58461ff63642101", "local symbol table with a symbol text that is not UTF-8 (4 bytes), then an int"),
 ("e98183d687b4816183312101", "symbol string in a table overruns the symbols list, then an int"),
 ("e98183d687b88161813171", "symbols list overruns the table struct"),
 ("ee908183d687b481618131", "local symbol table whose wrapper overruns the input"),
 ("e98183d687b4816181", "symbols list cut inside a string"),
 ("e00100", "truncated version marker"), ("e00200ea", "unsupported version 2.0"), ("e00101ea", "unsupported version 1.1"),
]
def tup(bs): return "<<" + ", ".join(str(b) for b in bs) + ">>"
out = ["---------------------------- MODULE MalformedCatalogue ----------------------------",
       "(* Hand-enumerated malformed documents (C07), each with the rule it breaks.  Generated by          *)",
       "(* tools/mk_malformed_catalogue.py, which holds the readable spellings.  Whether a document is     *)",
       "(* used as a must-reject case is decided by the specification's decoders, not by this list.        *)",
       "BadText == <<"]
rows = []
for t, why in TEXT:
    rows.append("  [why |-> \"%s\", bytes |-> %s]" % (why.replace('"', "'").replace("\\", "/"), tup(t.encode())))
for bs, why in TEXT_BYTES:
    rows.append("  [why |-> \"%s\", bytes |-> %s]" % (why, tup(bs)))
out.append(",\n".join(rows))
out.append(">>")
out.append("BadBinary == <<")
rows = []
for h, why in BIN:
    rows.append("  [why |-> \"%s\", bytes |-> %s]" % (why.replace('"', "'"), tup(bytes.fromhex(B + h))))
rows.append("  [why |-> \"truncated version marker\", bytes |-> <<224, 1, 0>>]")
rows.append("  [why |-> \"unsupported version 2.0\", bytes |-> <<224, 2, 0, 234, 33, 1>>]")
out.append(",\n".join(rows))
out.append(">>")
out.append("=============================================================================")
open(os.path.join(os.path.dirname(os.path.dirname(os.path.abspath(__file__))), "spec", "MalformedCatalogue.tla"), "w").write("\n".join(out) + "\n")
print(len(TEXT) + len(TEXT_BYTES), "text,", len(BIN) + 2, "binary")
