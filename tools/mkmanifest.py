#!/usr/bin/env python3
"""Regenerates /verif/MANIFEST.json from the table below (single source of truth)."""
import json, os, sys
HERE = os.path.dirname(os.path.dirname(os.path.abspath(__file__)))
sys.path.insert(0, HERE)
from checks import REGISTRY   # id -> dict(level, text, note, technique, design_ref)

ALL = ["C%02d" % i for i in range(1, 21)]
NA = {}
try:
    from checks import NOT_APPLICABLE as NA
except ImportError:
    pass

checks = []
for pid in ALL:
    if pid not in REGISTRY:
        continue
    r = REGISTRY[pid]
    checks.append(dict(
        property_id=pid,
        quick_cmd="./check %s --tier quick" % pid,
        thorough_cmd="./check %s --tier thorough" % pid,
        evidence_file="evidence/%s.json" % pid,
        replay_cmd_template="./check %s --replay {path}" % pid,
        engine="tlc-conformance",
        level_claimed=dict(category=r["level"], text=r["text"], design_ref=r.get("design_ref", "DESIGN.md section 5")),
        level_note=r["note"],
        technique=r["technique"]))
na = [dict(property_id=p, reason=NA.get(p, "check not built yet in this round; see DESIGN.md build order"))
      for p in ALL if p not in REGISTRY]
manifest = dict(
    version=1,
    setup_cmd="./tools/setup.sh",
    hooks=dict(guard="verif", enable="go build -tags verif (the harness is built with -tags verif against /repo)",
               baseline_off_cmd="./tools/baseline_off.py",
               source_commits=open(os.path.join(HERE, "tools", "hook_commits.txt")).read().split(),
               add_only=True),
    engines=[dict(name="tlc-conformance", path="check",
                  serves_properties=[c["property_id"] for c in checks],
                  kind_free_text="explicit TLA+ specification (spec/*.tla) model-checked by TLC; TLC-generated "
                                 "programs/encodings replayed on ion-go by a Go harness; recorded executions "
                                 "and emitted bytes judged by TLC against the specification")],
    checks=checks,
    not_applicable=na,
    notes="All checks: ./check <id> [--tier quick|thorough] [--replay path]. Exit 0 held / 1 VIOLATION / 2 machinery error.")
with open(os.path.join(HERE, "MANIFEST.json"), "w") as f:
    json.dump(manifest, f, indent=1)
print("MANIFEST.json: %d checks, %d not_applicable" % (len(checks), len(na)))
