#!/usr/bin/env python3
"""Decode Ion text or binary with the specification's own decoders (TLC) — a triage aid.
usage: tladecode.py [-b] <file with one input per line>   (-b: lines are hex, binary Ion)
       tladecode.py -s 'text' ...                        (inputs given as arguments)"""
import json, os, subprocess, sys, tempfile, shutil
sys.path.insert(0, os.path.dirname(os.path.dirname(os.path.abspath(__file__))))
from vlib import core

def show_tok(t):
    return bytes(t["text"]).decode("utf8", "replace") if t["k"] == "text" else "$%d" % t["sid"]

def show(v):
    a = "".join(show_tok(t) + "::" for t in v["ann"])
    if v["null"]:
        return a + "null." + v["t"]
    t, x = v["t"], v["v"]
    if t == "bool": s = str(x).lower()
    elif t == "int": s = ("-" if x["neg"] else "") + str(int.from_bytes(bytes(x["mag"]), "big"))
    elif t == "float":
        import struct; s = "f:" + repr(struct.unpack(">d", bytes(x))[0])
    elif t == "decimal": s = "%s%dd%d" % ("-" if x["neg"] else "", int.from_bytes(bytes(x["coef"]), "big"), x["exp"])
    elif t == "timestamp": s = "ts:%04d-%02d-%02dT%02d:%02d:%02d.%s off=%s%d prec=%d" % (x["y"], x["mo"], x["d"], x["h"], x["mi"], x["s"], "".join(map(str, x["frac"])), "" if x["known"] else "?", x["off"], x["prec"])
    elif t == "symbol": s = "sym:" + show_tok(x)
    elif t == "string": s = json.dumps(bytes(x).decode("utf8", "replace"))
    elif t in ("clob", "blob"): s = t + ":" + bytes(x).hex()
    elif t in ("list", "sexp"): s = ("[%s]" if t == "list" else "(%s)") % ", ".join(show(k) for k in x)
    elif t == "struct": s = "{%s}" % ", ".join(show_tok(f["name"]) + ":" + show(f["val"]) for f in x)
    else: s = "?"
    return a + s

def decode(inputs, binary):
    d = tempfile.mkdtemp(prefix="tladec")
    try:
        for f in os.listdir(core.SPEC):
            if f.endswith(".tla"):
                shutil.copy(os.path.join(core.SPEC, f), d)
        core.write_ndjson(os.path.join(d, "in.ndjson"), [dict(b=list(x)) for x in inputs])
        with open(os.path.join(d, "Dec.tla"), "w") as f:
            f.write('---- MODULE Dec ----\nEXTENDS IonText, Json, TLC\nIn == ndJsonDeserialize("in.ndjson")\n'
                    'D(b) == LET d == %s IN IF d.ok THEN [ok |-> TRUE, forest |-> d.forest] ELSE d\n'
                    'ASSUME ndJsonSerialize("out.ndjson", [i \\in 1..Len(In) |-> D(In[i].b)])\n====\n'
                    % ("BinDecode(b, <<>>)" if binary else "TextDecode(b)"))
        open(os.path.join(d, "Dec.cfg"), "w").close()
        core.run_tlc(d, "Dec", "Dec.cfg")
        return core.read_ndjson(os.path.join(d, "out.ndjson"))
    finally:
        shutil.rmtree(d, ignore_errors=True)

if __name__ == "__main__":
    args = sys.argv[1:]
    binary = "-b" in args
    args = [a for a in args if a != "-b"]
    if args and args[0] == "-s":
        raw = args[1:]
    else:
        raw = [l.rstrip("\n") for l in open(args[0])]
    inputs = [bytes.fromhex(x) if binary else x.encode() for x in raw]
    for src, r in zip(raw, decode(inputs, binary)):
        if r["ok"]:
            print("%-40s => %s" % (src, "  ".join(show(v) for v in r["forest"])))
        else:
            print("%-40s => REJECT at %s: %s" % (src, r["at"], r["why"]))
