#!/bin/bash
# runall.sh [tier] [seed] [ids...] : run the registered checks of the /verif this script lives in, one summary line each
TIER=${1:-quick}; SEED=${2:-1}; shift; shift
IDS="$@"
cd "$(dirname "$0")/.."
[ -z "$IDS" ] && IDS=$(python3 -c "
import json
print(' '.join(c['property_id'] for c in json.load(open('MANIFEST.json'))['checks']))")
LOGDIR=${VERIF_LOGDIR:-/tmp}
for c in $IDS; do
  s=$(date +%s)
  VERIF_SEED=$SEED VERIF_EVIDENCE_DIR=${VERIF_EVIDENCE_DIR:-$PWD/evidence} ./check $c --tier $TIER > $LOGDIR/runall-$c-$SEED-$TIER.log 2>&1; rc=$?
  e=$(date +%s)
  echo "check=$c tier=$TIER seed=$SEED exit=$rc violations=$(grep -c '^VIOLATION' $LOGDIR/runall-$c-$SEED-$TIER.log) known=$(grep -c '^KNOWN-FINDING' $LOGDIR/runall-$c-$SEED-$TIER.log) wall=$((e-s))s"
done
