#!/bin/bash
# runall.sh [tier] [seed] [ids...] : run the registered checks, one summary line each
TIER=${1:-quick}; SEED=${2:-1}; shift; shift
IDS="$@"
[ -z "$IDS" ] && IDS=$(python3 -c "
import json
print(' '.join(c['property_id'] for c in json.load(open('/verif/MANIFEST.json'))['checks']))")
cd /verif
for c in $IDS; do
  s=$(date +%s)
  VERIF_SEED=$SEED VERIF_EVIDENCE_DIR=${VERIF_EVIDENCE_DIR:-/verif/evidence} ./check $c --tier $TIER > /tmp/runall-$c-$SEED.log 2>&1; rc=$?
  e=$(date +%s)
  echo "check=$c tier=$TIER seed=$SEED exit=$rc violations=$(grep -c '^VIOLATION' /tmp/runall-$c-$SEED.log) known=$(grep -c '^KNOWN-FINDING' /tmp/runall-$c-$SEED.log) wall=$((e-s))s"
done
