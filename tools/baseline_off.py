#!/usr/bin/env python3
"""Run amzn/ion-go's test suite with the verif build tag OFF and compare with BASELINE.json:
every test in stable_pass must pass.  exit 0 iff so."""
import json, os, subprocess, sys
repo = os.environ.get("VERIF_REPO", "/repo")
base = json.load(open("/root/.vp/BASELINE.json"))
env = dict(os.environ, GOFLAGS="-mod=mod", GOPROXY="off", GOSUMDB="off", GOTOOLCHAIN="local")
p = subprocess.run(["go", "test", "-json", "-vet=off", "-count=1", "-timeout", "25m", "./..."],
                   cwd=repo, env=env, stdout=subprocess.PIPE, stderr=subprocess.STDOUT, text=True)
status = {}
for line in p.stdout.splitlines():
    try:
        ev = json.loads(line)
    except ValueError:
        continue
    if ev.get("Test") and ev.get("Action") in ("pass", "fail", "skip"):
        status["%s::%s" % (ev["Package"], ev["Test"])] = ev["Action"]
missing = [t for t in base["stable_pass"] if status.get(t) != "pass"]
print("baseline: %d stable tests, %d passing now, %d not passing" %
      (len(base["stable_pass"]), len(base["stable_pass"]) - len(missing), len(missing)))
for t in missing[:20]:
    print("  NOT PASSING:", t, status.get(t))
sys.exit(1 if missing else 0)
