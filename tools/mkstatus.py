#!/usr/bin/env python3
"""Rewrites the generated block of DESIGN.md (between the STATUS markers) from what is on disk: MANIFEST.json,
evidence/*.json, known_findings.json, seeded/*/meta.json and the commit log of /repo."""
import glob
import json
import os
import subprocess

HERE = os.path.dirname(os.path.abspath(__file__))
V = os.path.dirname(HERE)
BEGIN, END = "<!-- BEGIN GENERATED STATUS -->", "<!-- END GENERATED STATUS -->"


def main():
    man = json.load(open(os.path.join(V, "MANIFEST.json")))
    kf = json.load(open(os.path.join(V, "known_findings.json")))["findings"]
    out = [BEGIN, "", "*(this block is rewritten by `tools/mkstatus.py` from MANIFEST.json, evidence/, known_findings.json and seeded/)*", ""]
    out += ["### 14.1 Checks as registered", "",
            "| id | level | quick wall (s) | cases executed against ion-go | TLC states (MC/GEN) | deciding technique |", "|---|---|---|---|---|---|"]
    for c in man["checks"]:
        pid = c["property_id"]
        try:
            ev = json.load(open(os.path.join(V, "evidence", pid + ".json")))
        except OSError:
            ev = {}
        cov = ev.get("coverage", {})
        out.append("| %s | %s | %s | %s | %s | %s |" % (pid, c["level_claimed"]["category"], ev.get("wall_s", "?"),
                   cov.get("traces_validated_against_impl", cov.get("evaluations", "?")), cov.get("states", "-"), c.get("technique", "")))
    out += ["", "`not_applicable`: %s." % (", ".join(x["property_id"] for x in man.get("not_applicable", [])) or "none — every property is decided with the specification"), ""]
    out += ["### 14.2 Genuine defects of amzn/ion-go found by the checks", "",
            "Repaired (one `fix:` commit each in /repo; the 972-test baseline passes unedited after every one):", ""]
    for f in kf:
        if f["status"] == "fixed":
            out.append("* %s — %s" % (f["id"], f["what"]))
    out += ["", "Recorded as known findings (reported as `KNOWN-FINDING:` lines, exit 0; any other violation still alarms):", ""]
    for f in kf:
        if f["status"] == "known":
            out.append("* %s (%s) — %s. *Identified by* %s. *Not repaired because* %s." %
                       (f["id"], f["property"], f["what"], " and ".join("`%s`" % m for m in f["match"]), f["why_not_fixed"]))
    out += ["", "### 14.3 Seeded changes (compile, pass the 972 tests, break one property) and the checks that catch them", "",
            "| seed | breaks | needs, to show | caught by | missed by |", "|---|---|---|---|---|"]
    for mf in sorted(glob.glob(os.path.join(V, "seeded", "*", "meta.json"))):
        m = json.load(open(mf))
        out.append("| %s | %s | %s | %s | %s |" % (m["id"], m["breaks_property"], m["needs_to_manifest"].replace("|", "/"),
                                                ", ".join(m["caught_by"]) or "-", ", ".join(m["missed_by"]) or "-"))
    out += ["", "### 14.4 As built, per check (the head comment of each `checks/cNN.py`)", ""]
    import ast
    for c in man["checks"]:
        pid = c["property_id"]
        src = open(os.path.join(V, "checks", pid.lower() + ".py")).read()
        doc = ast.get_docstring(ast.parse(src)) or ""
        out += ["```", doc, "```", ""]
    out += ["### 14.5 Commits in /repo", "", "```"]
    log = subprocess.run(["git", "-C", os.environ.get("VERIF_REPO", "/repo"), "log", "--oneline", "--reverse"], stdout=subprocess.PIPE, text=True).stdout
    out += [l for l in log.splitlines()[1:]]
    out += ["```", "", END]
    p = os.path.join(V, "DESIGN.md")
    s = open(p).read()
    if BEGIN in s:
        a, b = s.index(BEGIN), s.index(END) + len(END)
        s = s[:a] + "\n".join(out) + s[b:]
    else:
        s = s.rstrip("\n") + "\n\n\n## 14. Status: what was built, what it found\n\n" + "\n".join(out) + "\n"
    open(p, "w").write(s)
    print("DESIGN.md status block: %d checks, %d findings, %d seeds" % (len(man["checks"]), len(kf), len(glob.glob(os.path.join(V, "seeded", "*", "meta.json")))))


if __name__ == "__main__":
    main()
