#!/bin/sh
# Build the Go harness against /repo (offline) and check the toolchain is present.
set -e
cd "$(dirname "$0")/.."
export GOFLAGS=-mod=mod GOPROXY=off GOSUMDB=off GOTOOLCHAIN=local
python3 - <<'PY'
import sys
sys.path.insert(0, ".")
from vlib import core
print("harness:", core.build_harness())
PY
java -cp /opt/veriftools/tla/tla2tools.jar tlc2.TLC -h >/dev/null 2>&1 || true
mkdir -p evidence replays
echo setup ok
