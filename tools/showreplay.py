#!/usr/bin/env python3
"""showreplay.py <replay.json>... : print the first differing top-level value of a read-back replay."""
import json, sys, os
sys.path.insert(0, os.path.dirname(os.path.dirname(os.path.abspath(__file__))))
from tools.tladecode import show
def norm(v):
    return json.dumps(v, sort_keys=True)
for p in sys.argv[1:]:
    r = json.load(open(p)); s = r["signature"]; c = r["case"]
    want, got = c["forest"], (c.get("back") or [])
    print("----", os.path.basename(p), s.get("symptom"), (s.get("rerr") or "")[:120])
    k = 0
    while k < len(want) and k < len(got) and norm(want[k]) == norm(got[k]):
        k += 1
    if "bytes" in c:
        b = bytes(c["bytes"])
        print(" doc :", (b.decode("utf8", "replace") if not b.startswith(b"\xe0\x01\x00\xea") else b.hex())[:700].replace("\n", "\\n"))
    print(" first difference at top-level value", k + 1, "of", len(want))
    if k < len(want): print(" want:", show(want[k])[:500].replace("\n", "\\n"))
    if k < len(got): print(" got :", show(got[k])[:500].replace("\n", "\\n"))
