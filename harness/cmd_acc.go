package main

// acc: position the real Reader on the first value of a document and call every accessor (C13).

import (
	"bufio"
	"encoding/json"

	"github.com/amzn/ion-go/ion"
)

type accObs struct {
	Acc string      `json:"acc"`
	Res string      `json:"res"` // err | nil | val | panic
	V   interface{} `json:"v"`
	Msg string      `json:"msg,omitempty"`
}

type accOut struct {
	Idx  int      `json:"idx"`
	Type string   `json:"type"`
	Null bool     `json:"null"`
	Err  string   `json:"err"`
	Accs []accObs `json:"accs"`
}

func callAcc(name string, f func() (interface{}, bool, error)) accObs {
	o := accObs{Acc: name, V: []int{}}
	err, pan, site := safely(func() error {
		v, isNil, err := f()
		if err != nil {
			o.Res = "err"
			o.Msg = err.Error()
			return nil
		}
		if isNil {
			o.Res = "nil"
			return nil
		}
		o.Res, o.V = "val", v
		return nil
	})
	if pan {
		o.Res, o.Msg = "panic", site+": "+err.Error()
	}
	return o
}

func cmdAcc(in *bufio.Scanner, out *bufio.Writer) error {
	idx := 0
	for in.Scan() {
		var c readCase
		if err := json.Unmarshal(in.Bytes(), &c); err != nil {
			return err
		}
		idx++
		o := accOut{Idx: idx, Accs: []accObs{}}
		err, pan, site := safely(func() error {
			r := ion.NewReaderBytes([]byte(c.Bytes))
			if !r.Next() {
				if r.Err() != nil {
					return r.Err()
				}
				o.Type = "none"
				return nil
			}
			o.Type, o.Null = typeNames[r.Type()], r.IsNull()
			o.Accs = append(o.Accs,
				callAcc("BoolValue", func() (interface{}, bool, error) {
					v, err := r.BoolValue()
					if v == nil {
						return nil, true, err
					}
					return *v, false, err
				}),
				callAcc("IntSize", func() (interface{}, bool, error) {
					v, err := r.IntSize()
					name := "unknown"
					switch v {
					case ion.NullInt:
						name = "NullInt"
					case ion.Int32:
						name = "Int32"
					case ion.Int64:
						name = "Int64"
					case ion.BigInt:
						name = "BigInt"
					}
					return name, false, err
				}),
				callAcc("IntValue", func() (interface{}, bool, error) {
					v, err := r.IntValue()
					if v == nil {
						return nil, true, err
					}
					return intFromBig(bigFromInt64(int64(*v))), false, err
				}),
				callAcc("Int64Value", func() (interface{}, bool, error) {
					v, err := r.Int64Value()
					if v == nil {
						return nil, true, err
					}
					return intFromBig(bigFromInt64(*v)), false, err
				}),
				callAcc("BigIntValue", func() (interface{}, bool, error) {
					v, err := r.BigIntValue()
					if v == nil {
						return nil, true, err
					}
					return intFromBig(v), false, err
				}),
				callAcc("FloatValue", func() (interface{}, bool, error) {
					v, err := r.FloatValue()
					if v == nil {
						return nil, true, err
					}
					return floatBits(*v), false, err
				}),
				callAcc("DecimalValue", func() (interface{}, bool, error) {
					v, err := r.DecimalValue()
					if v == nil {
						return nil, true, err
					}
					return decFromIon(v), false, err
				}),
				callAcc("TimestampValue", func() (interface{}, bool, error) {
					v, err := r.TimestampValue()
					if v == nil {
						return nil, true, err
					}
					return tsFromIon(*v), false, err
				}),
				callAcc("StringValue", func() (interface{}, bool, error) {
					v, err := r.StringValue()
					if v == nil {
						return nil, true, err
					}
					return Bytes(*v), false, err
				}),
				callAcc("SymbolValue", func() (interface{}, bool, error) {
					v, err := r.SymbolValue()
					if v == nil {
						return nil, true, err
					}
					return tokFromIon(v), false, err
				}),
				callAcc("ByteValue", func() (interface{}, bool, error) {
					v, err := r.ByteValue()
					if v == nil {
						return nil, true, err
					}
					return Bytes(v), false, err
				}))
			return nil
		})
		if pan {
			o.Err = "panic at " + site + ": " + err.Error()
		} else if err != nil {
			o.Err = err.Error()
		}
		if err := emit(out, o); err != nil {
			return err
		}
	}
	return in.Err()
}

func init() { register("acc", cmdAcc) }
