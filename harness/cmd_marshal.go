package main

// marshal / unmarshal: the reflection mapping (C16, C17).

import (
	"bufio"
	"bytes"
	"encoding/json"
	"math/rand"
	"reflect"

	"github.com/amzn/ion-go/ion"
)

type marshalCase struct {
	Type string `json:"type"`
	Seed int64  `json:"seed"`
}

type marshalObs struct {
	Idx     int    `json:"idx"`
	Type    string `json:"type"`
	GV      GV     `json:"gv"`
	Text    Bytes  `json:"text"`
	TextErr string `json:"texterr"`
	Same    bool   `json:"same"` // MarshalText twice gave the same bytes
	Bin     Bytes  `json:"bin"`
	BinErr  string `json:"binerr"`
	Panic   string `json:"panic"`
	// Unmarshal of each output into a fresh value of the same type
	BackText    GV     `json:"backtext"`
	BackTextErr string `json:"backtexterr"`
	BackBin     GV     `json:"backbin"`
	BackBinErr  string `json:"backbinerr"`
	// "" when the byte slices MarshalText / MarshalBinary returned are still what they were after two further Marshal calls
	Stale string `json:"stale"`
}

func cmdMarshal(in *bufio.Scanner, out *bufio.Writer) error {
	idx := 0
	for in.Scan() {
		var c marshalCase
		if err := json.Unmarshal(in.Bytes(), &c); err != nil {
			return err
		}
		idx++
		t := goTypeByName(c.Type)
		o := marshalObs{Idx: idx, Type: c.Type, GV: newGV("none"), Text: Bytes{}, Bin: Bytes{}, BackText: newGV("none"), BackBin: newGV("none")}
		err, pan, site := safely(func() error {
			pv := reflect.New(t)
			randValue(rand.New(rand.NewSource(c.Seed)), pv.Elem(), 0, "")
			o.GV = walk(pv.Elem())
			txt, err := ion.MarshalText(pv.Interface())
			o.TextErr = errString(err)
			o.Text = append(Bytes{}, txt...)
			txt2, _ := ion.MarshalText(pv.Interface())
			o.Same = bytes.Equal(o.Text, txt2)
			bin, err := ion.MarshalBinary(pv.Interface())
			o.BinErr = errString(err)
			o.Bin = append(Bytes{}, bin...)
			// a caller keeps what it got while it marshals something else
			ion.MarshalText("something else, long enough to overwrite a reused buffer: 0123456789 0123456789 0123456789")
			ion.MarshalBinary("something else, long enough to overwrite a reused buffer: 0123456789 0123456789 0123456789")
			if !bytes.Equal(txt, o.Text) {
				o.Stale = "the bytes MarshalText returned were changed by a later Marshal call"
			} else if !bytes.Equal(bin, o.Bin) {
				o.Stale = "the bytes MarshalBinary returned were changed by a later Marshal call"
			}
			if o.TextErr == "" {
				back := reflect.New(t)
				o.BackTextErr = errString(ion.Unmarshal(txt, back.Interface()))
				o.BackText = walk(back.Elem())
			}
			if o.BinErr == "" {
				back := reflect.New(t)
				o.BackBinErr = errString(ion.Unmarshal(bin, back.Interface()))
				o.BackBin = walk(back.Elem())
			}
			return nil
		})
		if pan {
			o.Panic = site + ": " + err.Error()
		}
		if err := emit(out, o); err != nil {
			return err
		}
	}
	return in.Err()
}

func isAnnWrapper(t reflect.Type) bool {
	if t.Kind() != reflect.Struct {
		return false
	}
	f, ok := t.FieldByName("A")
	return ok && f.Type == reflect.TypeOf([]ion.SymbolToken{})
}

type unmarshalCase struct {
	Bytes  Bytes    `json:"bytes"`
	Types  []string `json:"types"`
	Stream bool     `json:"stream"` // decode the whole stream with Decoder.Decode until ErrNoInput
	Trunc  bool     `json:"trunc"`  // the document is cut short: also report what a Reader says about its first value
}

type unmarshalRes struct {
	Stale string `json:"stale"` // non-empty: decoding into a prefilled annotation wrapper gave another result than into a fresh one
	Type  string `json:"type"`
	Err   string `json:"err"`
	Panic string `json:"panic"`
	GV    GV     `json:"gv"`
}

type unmarshalObs struct {
	Idx int            `json:"idx"`
	Res []unmarshalRes `json:"res"`
	// Decoder.Decode until ErrNoInput, then twice more
	Decoded  []GV   `json:"decoded"`
	DecErr   string `json:"decerr"`
	NoInput  int    `json:"noinput"` // how many of the 3 calls after the last value returned ErrNoInput
	DecPanic string `json:"decpanic"`
	// Trunc: the error a Reader meets while reading the first value completely ("" if it reads it without error)
	FirstErr string `json:"firsterr"`
}

func cmdUnmarshal(in *bufio.Scanner, out *bufio.Writer) error {
	idx := 0
	for in.Scan() {
		var c unmarshalCase
		if err := json.Unmarshal(in.Bytes(), &c); err != nil {
			return err
		}
		idx++
		o := unmarshalObs{Idx: idx, Res: []unmarshalRes{}, Decoded: []GV{}}
		if c.Trunc {
			err, pan, site := safely(func() error {
				r := ion.NewReaderBytes([]byte(c.Bytes))
				if !r.Next() {
					return r.Err()
				}
				_, e := projectCurrent(r, 0)
				if e == nil {
					e = r.Err()
				}
				return e
			})
			if pan {
				o.FirstErr = "panic at " + site
			} else {
				o.FirstErr = errString(err)
			}
		}
		for _, tn := range c.Types {
			t := goTypeByName(tn)
			r := unmarshalRes{Type: tn, GV: newGV("none")}
			err, pan, site := safely(func() error {
				pv := reflect.New(t)
				e := ion.Unmarshal([]byte(c.Bytes), pv.Interface())
				if e == nil {
					r.GV = walk(pv.Elem())
				}
				return e
			})
			if pan {
				r.Panic = site + ": " + err.Error()
			} else {
				r.Err = errString(err)
			}
			// an annotation wrapper that already holds annotations: what it holds afterwards are the value's
			// annotations, exactly as for a fresh wrapper
			if isAnnWrapper(t) && !pan && err == nil {
				safely(func() error {
					pv := reflect.New(t)
					stale := "stale"
					pv.Elem().FieldByName("A").Set(reflect.ValueOf([]ion.SymbolToken{{Text: &stale, LocalSID: ion.SymbolIDUnknown}}))
					if e := ion.Unmarshal([]byte(c.Bytes), pv.Interface()); e == nil {
						a, _ := json.Marshal(r.GV)
						b, _ := json.Marshal(walk(pv.Elem()))
						if string(a) != string(b) {
							r.Stale = "a wrapper that already held annotations does not end up as a fresh one does"
						}
					}
					return nil
				})
			}
			o.Res = append(o.Res, r)
		}
		err, pan, site := safely(func() error {
			d := ion.NewDecoder(ion.NewReaderBytes([]byte(c.Bytes)))
			for k := 0; k < 1000; k++ {
				v, e := d.Decode()
				if e == ion.ErrNoInput {
					o.NoInput = 1
					for j := 0; j < 2; j++ {
						if _, e2 := d.Decode(); e2 == ion.ErrNoInput {
							o.NoInput++
						}
					}
					return nil
				}
				if e != nil {
					return e
				}
				o.Decoded = append(o.Decoded, walk(reflect.ValueOf(&v).Elem()))
			}
			return nil
		})
		if pan {
			o.DecPanic = site + ": " + err.Error()
		} else {
			o.DecErr = errString(err)
		}
		if err := emit(out, o); err != nil {
			return err
		}
	}
	return in.Err()
}

func init() {
	register("marshal", cmdMarshal)
	register("unmarshal", cmdUnmarshal)
}
