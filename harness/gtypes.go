package main

// The Go types the reflection mapping is exercised with (C16, C17).

import (
	"math/big"
	"reflect"
	"time"

	"github.com/amzn/ion-go/ion"
)

type mScalars struct {
	B   bool
	I   int
	I8  int8
	I16 int16
	I32 int32
	I64 int64
	U   uint
	U8  uint8
	U16 uint16
	U32 uint32
	U64 uint64
	F32 float32
	F64 float64
	S   string
}

type mTags struct {
	A int            `ion:"alpha"`
	B string         `ion:"beta,omitempty"`
	C string         `ion:",symbol"`
	D []byte         `ion:"dd,clob"`
	E []int          `ion:",sexp"`
	F int            `ion:"-"`
	g int            //nolint
	H []string       `ion:"h,omitempty"`
	P *int           `ion:"p,omitempty"`
	M map[string]int `ion:",omitempty"`
	Z bool           `ion:"z,omitempty"`
	N float64        `ion:",omitempty"`
	Y []string       `ion:"why,symbol"`
}

type mColl struct {
	L  []int
	LL [][]string
	A  [3]int8
	BA [4]byte
	BS []byte
	M  map[string]string
	MM map[string][]int
	PS []*int
	E  []struct{ X int }
}

type mPtr struct {
	P  *int
	PP **string
	PS *mScalars
	N  *mPtr
}

type mIface struct {
	V interface{}
	L []interface{}
	M map[string]interface{}
}

type mInner struct {
	X int
	Y string `ion:"why"`
}

type mEmbed struct {
	mInner
	Z int
}

type MInnerPub struct {
	P int
	Q []string
}

type mEmbedPtr struct {
	*MInnerPub
	R int
}

type mSpecial struct {
	T  ion.Timestamp
	D  *ion.Decimal
	TM time.Time
	BI *big.Int
	BV big.Int
	PT *ion.Timestamp
}

type mAnnInt struct {
	V int
	A []ion.SymbolToken `ion:",annotations"`
}

type mAnnStruct struct {
	V mInner
	A []ion.SymbolToken `ion:",annotations"`
}

type mAnnList struct {
	A []ion.SymbolToken `ion:",annotations"`
	V []string
}

type mNested struct {
	S  mScalars
	T  mTags
	L  []mInner
	M  map[string]mInner
	PE *mEmbed
	EP mEmbedPtr
}

// three and four levels of embedding (index paths of length 3 and 4)
type mE4 struct {
	P4 int
	Q4 string
}
type mE3 struct {
	mE4
	A3 int
	B3 string
	C3 bool
}
type mE2 struct {
	mE3
	D2 int
}
type mE1 struct {
	mE2
	E1 []int
}
type mDeep struct {
	mE1
	F0 int
	G0 string
}

// field names that differ only by case
type mCase struct {
	Count int
	Total int `ion:"count"`
	NAME  string
	Name  string `ion:"name"`
	Id    int    `ion:"ID"`
	ID    int    `ion:"id"`
}

// collections of structs whose fields may be omitted: an element decoded after another must not inherit from it
type mOmit struct {
	X int `ion:",omitempty"`
	Y int
	L []int  `ion:",omitempty"`
	S string `ion:"s,omitempty"`
}
type mMapStruct struct {
	M  map[string]mOmit
	SL []mOmit
	P  map[string]*mOmit
}

var goTypes = []struct {
	Name string
	T    reflect.Type
}{
	{"bool", reflect.TypeOf(false)}, {"int", reflect.TypeOf(int(0))}, {"int8", reflect.TypeOf(int8(0))},
	{"int16", reflect.TypeOf(int16(0))}, {"int32", reflect.TypeOf(int32(0))}, {"int64", reflect.TypeOf(int64(0))},
	{"uint", reflect.TypeOf(uint(0))}, {"uint8", reflect.TypeOf(uint8(0))}, {"uint16", reflect.TypeOf(uint16(0))},
	{"uint32", reflect.TypeOf(uint32(0))}, {"uint64", reflect.TypeOf(uint64(0))},
	{"float32", reflect.TypeOf(float32(0))}, {"float64", reflect.TypeOf(float64(0))}, {"string", reflect.TypeOf("")},
	{"bytes", reflect.TypeOf([]byte{})}, {"array4", reflect.TypeOf([4]byte{})}, {"ints", reflect.TypeOf([]int{})},
	{"strings", reflect.TypeOf([]string{})}, {"arr3", reflect.TypeOf([3]int16{})}, {"map", reflect.TypeOf(map[string]int{})},
	{"mapiface", reflect.TypeOf(map[string]interface{}{})}, {"iface", reflect.TypeOf((*interface{})(nil)).Elem()},
	{"ifaces", reflect.TypeOf([]interface{}{})}, {"ptrint", reflect.TypeOf((*int)(nil))}, {"ptrptr", reflect.TypeOf((**string)(nil))},
	{"timestamp", reflect.TypeOf(ion.Timestamp{})}, {"decimalptr", reflect.TypeOf((*ion.Decimal)(nil))},
	{"time", reflect.TypeOf(time.Time{})}, {"bigint", reflect.TypeOf(big.Int{})}, {"bigintptr", reflect.TypeOf((*big.Int)(nil))},
	{"scalars", reflect.TypeOf(mScalars{})}, {"tags", reflect.TypeOf(mTags{})}, {"coll", reflect.TypeOf(mColl{})},
	{"ptr", reflect.TypeOf(mPtr{})}, {"ifacestruct", reflect.TypeOf(mIface{})}, {"inner", reflect.TypeOf(mInner{})},
	{"embed", reflect.TypeOf(mEmbed{})}, {"embedptr", reflect.TypeOf(mEmbedPtr{})}, {"special", reflect.TypeOf(mSpecial{})},
	{"annint", reflect.TypeOf(mAnnInt{})}, {"annstruct", reflect.TypeOf(mAnnStruct{})}, {"annlist", reflect.TypeOf(mAnnList{})},
	{"nested", reflect.TypeOf(mNested{})}, {"token", reflect.TypeOf(ion.SymbolToken{})},
	{"deep", reflect.TypeOf(mDeep{})}, {"case", reflect.TypeOf(mCase{})}, {"mapstruct", reflect.TypeOf(mMapStruct{})},
}

func goTypeByName(n string) reflect.Type {
	for _, g := range goTypes {
		if g.Name == n {
			return g.T
		}
	}
	return nil
}
