package main

import (
	"bufio"
	"bytes"
	"encoding/json"
	"fmt"
	"io"
	"runtime/debug"
	"strings"

	"github.com/amzn/ion-go/ion"
)

// newWriter creates a writer of the given configuration.
//
//	text | pretty | binary (growing table) | binlst (fixed table defining `fixed`)
func newWriter(mode string, out io.Writer, fixed []Bytes) ion.Writer {
	switch mode {
	case "text":
		return ion.NewTextWriter(out)
	case "pretty":
		return ion.NewTextWriterOpts(out, ion.TextWriterPretty)
	case "binary", "binsid", "bintwice":
		return ion.NewBinaryWriter(out)
	case "textquiet":
		return ion.NewTextWriterOpts(out, ion.TextWriterQuietFinish)
	case "textimp":
		return ion.NewTextWriter(out, ion.NewSharedSymbolTable("shared", 1, []string{"s1", "a", "name"}))
	case "binlst":
		syms := make([]string, len(fixed))
		for i, f := range fixed {
			syms[i] = string(f)
		}
		return ion.NewBinaryWriterLST(out, ion.NewLocalSymbolTable(nil, syms))
	}
	panic("harness: unknown writer mode " + mode)
}

// topFrame returns the innermost ion-go frame of a panic stack (its identity for known findings).
func topFrame(stack string) string {
	for _, line := range strings.Split(stack, "\n") {
		if strings.HasPrefix(line, "github.com/amzn/ion-go/") {
			if i := strings.LastIndex(line, "("); i > 0 {
				line = line[:i]
			}
			return strings.TrimPrefix(line, "github.com/amzn/ion-go/")
		}
	}
	return "unknown"
}

func safely(f func() error) (err error, panicked bool, site string) {
	defer func() {
		if r := recover(); r != nil {
			panicked = true
			site = topFrame(string(debug.Stack()))
			err = fmt.Errorf("panic: %v", r)
		}
	}()
	return f(), false, ""
}

type wprotoCase struct {
	ID    string  `json:"id"`
	Mode  string  `json:"mode"`
	Fixed []Bytes `json:"fixed"`
	Prog  []Call  `json:"prog"`
}

type wprotoEvent struct {
	E     string  `json:"e"` // "reset" | "call"
	ID    string  `json:"id"`
	Mode  string  `json:"mode,omitempty"`
	Fixed []Bytes `json:"fixed,omitempty"`
	C     *Call   `json:"c,omitempty"`
	Res   string  `json:"res,omitempty"` // ok | err | panic
	Ins   bool    `json:"ins"`
	Out   Bytes   `json:"out"` // everything emitted so far (logged at every Finish)
	Msg   string  `json:"msg,omitempty"`
	Twice bool    `json:"same"` // at Finish: the same program run a second time emitted the same bytes
}

// runProgram replays prog on a fresh writer; after the program it always issues one closing
// Finish (so that every program's output is judged), unless the last call was a Finish.
func runProgram(c wprotoCase, record func(ev wprotoEvent)) []byte {
	var buf bytes.Buffer
	w := newWriter(c.Mode, &buf, c.Fixed)
	prog := c.Prog
	if len(prog) == 0 || prog[len(prog)-1].M != "Finish" {
		prog = append(append([]Call{}, prog...), Call{Op: "Finish", M: "Finish"})
	}
	for i := range prog {
		call := prog[i]
		err, panicked, site := safely(func() error { return applyCall(w, call) })
		ev := wprotoEvent{E: "call", ID: c.ID, C: &call, Res: "ok", Out: Bytes{}}
		if panicked {
			ev.Res, ev.Msg = "panic", site+": "+err.Error()
		} else if err != nil {
			ev.Res, ev.Msg = "err", err.Error()
		}
		if !panicked {
			ev.Ins = w.IsInStruct()
		}
		if call.M == "Finish" {
			ev.Out = append(Bytes{}, buf.Bytes()...)
		}
		if record != nil {
			record(ev)
		}
		if panicked {
			break
		}
	}
	return buf.Bytes()
}

// wproto: replay protocol programs, log one event per call.
func cmdWproto(in *bufio.Scanner, out *bufio.Writer) error {
	for in.Scan() {
		var c wprotoCase
		if err := json.Unmarshal(in.Bytes(), &c); err != nil {
			return err
		}
		if err := emit(out, wprotoEvent{E: "reset", ID: c.ID, Mode: c.Mode, Fixed: c.Fixed, Out: Bytes{}}); err != nil {
			return err
		}
		var evs []wprotoEvent
		first := runProgram(c, func(ev wprotoEvent) { evs = append(evs, ev) })
		second := runProgram(c, nil) // determinism: same calls, same bytes
		same := bytes.Equal(first, second)
		for i := range evs {
			evs[i].Twice = same
			if err := emit(out, evs[i]); err != nil {
				return err
			}
		}
	}
	return in.Err()
}

type rtCase struct {
	Forest []Val `json:"forest"`
}

type rtObs struct {
	Idx  int    `json:"idx"`
	Mode string `json:"mode"`
	WErr string `json:"werr"`
	WPan string `json:"wpanic"`
	Out  Bytes  `json:"out"`
	RErr string `json:"rerr"`
	RPan string `json:"rpanic"`
	Back []Val  `json:"back"`
	// after the traversal (C07): Err() text, and whether 3 further Next calls all returned false
	// with Err() unchanged
	ErrAfter string `json:"errAfter"`
	Sticky   bool   `json:"sticky"`
}

// roundtrip: write each forest with every writer mode, Finish, read the bytes back.
func cmdRoundtrip(in *bufio.Scanner, out *bufio.Writer) error {
	idx := 0
	for in.Scan() {
		var c rtCase
		if err := json.Unmarshal(in.Bytes(), &c); err != nil {
			return err
		}
		idx++
		for _, mode := range []string{"text", "pretty", "binary", "binsid", "bintwice", "textquiet", "textimp"} {
			o := rtObs{Idx: idx, Mode: mode, Out: Bytes{}, Back: []Val{}}
			var buf bytes.Buffer
			if mode == "binsid" {
				foreignSID = 11 // every token with text also carries an ID from "elsewhere"; the text must win
			}
			err, pan, site := safely(func() error {
				w := newWriter(mode, &buf, nil)
				for _, v := range c.Forest {
					if err := writeValue(w, v); err != nil {
						return err
					}
				}
				if mode == "bintwice" || mode == "textquiet" {
					// the same values again as a second datagram of the same writer (no new symbols in it)
					if err := w.Finish(); err != nil {
						return err
					}
					for _, v := range c.Forest {
						if err := writeValue(w, v); err != nil {
							return err
						}
					}
				}
				return w.Finish()
			})
			foreignSID = 0
			if pan {
				o.WPan = site
			}
			o.WErr = errString(err)
			o.Out = append(Bytes{}, buf.Bytes()...)
			if err == nil {
				rerr, rpan, rsite := safely(func() error {
					back, err := projectAll(ion.NewReaderBytes(buf.Bytes()))
					o.Back = back
					return err
				})
				if rpan {
					o.RPan = rsite
				}
				o.RErr = errString(rerr)
			}
			if err := emit(out, o); err != nil {
				return err
			}
		}
	}
	return in.Err()
}

func init() {
	register("wproto", cmdWproto)
	register("roundtrip", cmdRoundtrip)
}

type catEntry struct {
	Name    Bytes   `json:"name"`
	Version int     `json:"version"`
	Syms    []Bytes `json:"syms"`
}

type readCase struct {
	Bytes Bytes      `json:"bytes"`
	Mode  string     `json:"mode"`
	Cat   []catEntry `json:"cat"` // shared tables the Reader's catalog holds
}

func catalogOf(entries []catEntry) ion.Catalog {
	ssts := make([]ion.SharedSymbolTable, len(entries))
	for i, e := range entries {
		ssts[i] = ion.NewSharedSymbolTable(string(e.Name), e.Version, strs(e.Syms))
	}
	return ion.NewCatalog(ssts...)
}

// read: plain full traversal of given bytes with the real Reader (C02, C03, ...).
// The observation has the shape Judge_RT expects (out = the input bytes).
func cmdRead(in *bufio.Scanner, out *bufio.Writer) error {
	idx := 0
	for in.Scan() {
		var c readCase
		if err := json.Unmarshal(in.Bytes(), &c); err != nil {
			return err
		}
		idx++
		mode := c.Mode
		if mode == "" {
			mode = "binary"
		}
		o := rtObs{Idx: idx, Mode: mode, Out: c.Bytes, Back: []Val{}}
		rerr, rpan, rsite := safely(func() error {
			r := ion.NewReaderCat(bytes.NewReader([]byte(c.Bytes)), catalogOf(c.Cat))
			back, err := projectAll(r)
			o.Back = back
			o.ErrAfter = errString(r.Err())
			o.Sticky = true
			for k := 0; k < 3; k++ {
				if r.Next() || errString(r.Err()) != o.ErrAfter {
					o.Sticky = false
				}
			}
			return err
		})
		if rpan {
			o.RPan = rsite
		}
		o.RErr = errString(rerr)
		if err := emit(out, o); err != nil {
			return err
		}
	}
	return in.Err()
}

func init() { register("read", cmdRead) }
