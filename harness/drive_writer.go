package main

// Drivers: abstract values / protocol calls -> real ion.Writer calls.

import (
	"encoding/json"
	"fmt"
	"math"

	"github.com/amzn/ion-go/ion"
)

// Call is one Writer method call in abstract form (see spec/WriterProto.tla).
type Call struct {
	Op   string `json:"op"`
	M    string `json:"m"`
	Tok  *Tok   `json:"tok,omitempty"`
	Toks []Tok  `json:"toks,omitempty"`
	V    *Val   `json:"v,omitempty"`
	Kind string `json:"kind,omitempty"`
}

func decodeInto(raw json.RawMessage, x interface{}) {
	if err := json.Unmarshal(raw, x); err != nil {
		panic(fmt.Sprintf("harness: bad abstract value %s: %v", string(raw), err))
	}
}

// writeScalar writes a non-container value body (annotations / field name are set by the caller)
// using the method named m ("" = the natural method for the type).
func writeScalar(w ion.Writer, v Val, m string) error {
	if v.Null {
		if v.T == "null" {
			if m == "WriteNullType" {
				return w.WriteNullType(ion.NullType)
			}
			return w.WriteNull()
		}
		return w.WriteNullType(typeByName[v.T])
	}
	switch v.T {
	case "null":
		return w.WriteNull()
	case "bool":
		var b bool
		decodeInto(v.V, &b)
		return w.WriteBool(b)
	case "int":
		var iv IntV
		decodeInto(v.V, &iv)
		b := iv.Big()
		switch {
		case m == "WriteBigInt":
			return w.WriteBigInt(b)
		case m == "WriteUint" && b.IsUint64():
			return w.WriteUint(b.Uint64())
		case m == "WriteInt" && b.IsInt64():
			return w.WriteInt(b.Int64())
		case m == "" && b.IsInt64():
			return w.WriteInt(b.Int64())
		case m == "" && b.IsUint64():
			return w.WriteUint(b.Uint64())
		default:
			return w.WriteBigInt(b)
		}
	case "float":
		var bs Bytes
		decodeInto(v.V, &bs)
		f := floatFromBits(bs)
		if bs[0]&0x7f == 0x7f && bs[1] >= 0xf0 && math.IsNaN(f) {
			f = math.NaN()
		}
		return w.WriteFloat(f)
	case "decimal":
		var dv DecV
		decodeInto(v.V, &dv)
		return w.WriteDecimal(dv.Ion())
	case "timestamp":
		var tv TsV
		decodeInto(v.V, &tv)
		return w.WriteTimestamp(tv.Ion())
	case "symbol":
		var t Tok
		decodeInto(v.V, &t)
		if m == "WriteSymbolFromString" && t.K == "text" {
			return w.WriteSymbolFromString(string(t.Text))
		}
		return w.WriteSymbol(tokToIon(t))
	case "string":
		var bs Bytes
		decodeInto(v.V, &bs)
		return w.WriteString(string(bs))
	case "clob":
		var bs Bytes
		decodeInto(v.V, &bs)
		return w.WriteClob([]byte(bs))
	case "blob":
		var bs Bytes
		decodeInto(v.V, &bs)
		return w.WriteBlob([]byte(bs))
	}
	return fmt.Errorf("harness: not a scalar type %q", v.T)
}

// writeValue writes a whole abstract value (annotations, containers, members) — the
// well-formed Writer program that denotes v.  Errors are returned at the first failure.
func writeValue(w ion.Writer, v Val) error {
	for _, a := range v.Ann {
		if err := w.Annotation(tokToIon(a)); err != nil {
			return err
		}
	}
	if v.Null || (v.T != "list" && v.T != "sexp" && v.T != "struct") {
		return writeScalar(w, v, "")
	}
	switch v.T {
	case "list", "sexp":
		var kids []Val
		decodeInto(v.V, &kids)
		var err error
		if v.T == "list" {
			err = w.BeginList()
		} else {
			err = w.BeginSexp()
		}
		if err != nil {
			return err
		}
		for _, k := range kids {
			if err := writeValue(w, k); err != nil {
				return err
			}
		}
		if v.T == "list" {
			return w.EndList()
		}
		return w.EndSexp()
	default:
		var fs []Field
		decodeInto(v.V, &fs)
		if err := w.BeginStruct(); err != nil {
			return err
		}
		for _, f := range fs {
			if err := w.FieldName(tokToIon(f.Name)); err != nil {
				return err
			}
			if err := writeValue(w, f.Val); err != nil {
				return err
			}
		}
		return w.EndStruct()
	}
}

// applyCall performs one protocol call on a real writer.
func applyCall(w ion.Writer, c Call) error {
	switch c.M {
	case "FieldName":
		return w.FieldName(tokToIon(*c.Tok))
	case "Annotation":
		return w.Annotation(tokToIon(*c.Tok))
	case "Annotations":
		ts := make([]ion.SymbolToken, len(c.Toks))
		for i, t := range c.Toks {
			ts[i] = tokToIon(t)
		}
		return w.Annotations(ts...)
	case "WriteSymbol":
		return w.WriteSymbol(tokToIon(*c.Tok))
	case "WriteSymbolFromString":
		return w.WriteSymbolFromString(string(c.Tok.Text))
	case "BeginList":
		return w.BeginList()
	case "EndList":
		return w.EndList()
	case "BeginSexp":
		return w.BeginSexp()
	case "EndSexp":
		return w.EndSexp()
	case "BeginStruct":
		return w.BeginStruct()
	case "EndStruct":
		return w.EndStruct()
	case "Finish":
		return w.Finish()
	default:
		if c.V == nil {
			return fmt.Errorf("harness: unknown method %q", c.M)
		}
		return writeScalar(w, *c.V, c.M)
	}
}
