package main

// copy: the documented Reader-to-Writer copy loop (README "Reading and Writing"), completed to all
// types, from a source document into each writer mode (C05).

import (
	"bufio"
	"bytes"
	"encoding/json"
	"fmt"

	"github.com/amzn/ion-go/ion"
)

func copyAll(r ion.Reader, w ion.Writer) error {
	for r.Next() {
		name, err := r.FieldName()
		if err != nil {
			return err
		}
		if name != nil {
			if err := w.FieldName(*name); err != nil {
				return err
			}
		}
		an, err := r.Annotations()
		if err != nil {
			return err
		}
		if len(an) > 0 {
			if err := w.Annotations(an...); err != nil {
				return err
			}
		}
		t := r.Type()
		if r.IsNull() {
			if err := w.WriteNullType(t); err != nil {
				return err
			}
			continue
		}
		switch t {
		case ion.NullType:
			err = w.WriteNull()
		case ion.BoolType:
			var v *bool
			if v, err = r.BoolValue(); err == nil {
				err = w.WriteBool(*v)
			}
		case ion.IntType:
			var size ion.IntSize
			if size, err = r.IntSize(); err != nil {
				return err
			}
			switch size {
			case ion.Int32:
				var v *int
				if v, err = r.IntValue(); err == nil {
					err = w.WriteInt(int64(*v))
				}
			case ion.Int64:
				var v *int64
				if v, err = r.Int64Value(); err == nil {
					err = w.WriteInt(*v)
				}
			default:
				v, e := r.BigIntValue()
				if e != nil {
					return e
				}
				err = w.WriteBigInt(v)
			}
		case ion.FloatType:
			var v *float64
			if v, err = r.FloatValue(); err == nil {
				err = w.WriteFloat(*v)
			}
		case ion.DecimalType:
			v, e := r.DecimalValue()
			if e != nil {
				return e
			}
			err = w.WriteDecimal(v)
		case ion.TimestampType:
			var v *ion.Timestamp
			if v, err = r.TimestampValue(); err == nil {
				err = w.WriteTimestamp(*v)
			}
		case ion.SymbolType:
			var v *ion.SymbolToken
			if v, err = r.SymbolValue(); err == nil {
				err = w.WriteSymbol(*v)
			}
		case ion.StringType:
			var v *string
			if v, err = r.StringValue(); err == nil {
				err = w.WriteString(*v)
			}
		case ion.ClobType:
			var v []byte
			if v, err = r.ByteValue(); err == nil {
				err = w.WriteClob(v)
			}
		case ion.BlobType:
			var v []byte
			if v, err = r.ByteValue(); err == nil {
				err = w.WriteBlob(v)
			}
		case ion.ListType, ion.SexpType, ion.StructType:
			if err = r.StepIn(); err != nil {
				return err
			}
			switch t {
			case ion.ListType:
				err = w.BeginList()
			case ion.SexpType:
				err = w.BeginSexp()
			default:
				err = w.BeginStruct()
			}
			if err != nil {
				return err
			}
			if err = copyAll(r, w); err != nil {
				return err
			}
			if err = r.StepOut(); err != nil {
				return err
			}
			switch t {
			case ion.ListType:
				err = w.EndList()
			case ion.SexpType:
				err = w.EndSexp()
			default:
				err = w.EndStruct()
			}
		default:
			return fmt.Errorf("harness: unexpected type %v", t)
		}
		if err != nil {
			return err
		}
	}
	return r.Err()
}

func cmdCopy(in *bufio.Scanner, out *bufio.Writer) error {
	idx := 0
	for in.Scan() {
		var c readCase
		if err := json.Unmarshal(in.Bytes(), &c); err != nil {
			return err
		}
		idx++
		for _, mode := range []string{"text", "pretty", "binary"} {
			o := rtObs{Idx: idx, Mode: mode, Out: Bytes{}, Back: []Val{}}
			var buf bytes.Buffer
			err, pan, site := safely(func() error {
				r := ion.NewReaderCat(bytes.NewReader([]byte(c.Bytes)), catalogOf(c.Cat))
				w := newWriter(mode, &buf, nil)
				if err := copyAll(r, w); err != nil {
					return err
				}
				return w.Finish()
			})
			if pan {
				o.WPan = site + ": " + err.Error()
			}
			o.WErr = errString(err)
			o.Out = append(Bytes{}, buf.Bytes()...)
			if err := emit(out, o); err != nil {
				return err
			}
		}
	}
	return in.Err()
}

func init() { register("copy", cmdCopy) }
