package main

// total: the isolated worker of C06.  For every input it runs a battery of drivers over the public reading API
// under recover and measures bytes allocated and time; a marker line is written (and flushed) before every
// input so that the driver of this process can tell which input killed it (fatal runtime error, out of memory)
// and a watchdog ends the process with a hang marker when one input takes longer than the deadline.
//
//	drivers: traverse  - every container entered, every accessor called on every value (fitting or not)
//	         skip      - Next only (the skipping code paths), then Err
//	         stepin    - StepIn / Next greedily without reading values, StepOut at every end
//	         prog:<k>  - a call program from the specification (N Next, I StepIn, O StepOut, A all accessors)
//	         decode    - Decoder.Decode until it stops (at most 10000 values)
//	         unmarshal:<type> - Unmarshal into a fresh value of each target type

import (
	"bufio"
	"bytes"
	"encoding/json"
	"fmt"
	"os"
	"reflect"
	"runtime"
	"runtime/debug"
	"sync/atomic"
	"time"

	"github.com/amzn/ion-go/ion"
)

type totalRep struct {
	Pre     Bytes `json:"pre"`
	Unit    Bytes `json:"unit"`
	N       int   `json:"n"`
	Post    Bytes `json:"post"`
	Closing Bytes `json:"closing"` // repeated n times after post
}

type totalCase struct {
	Idx     int       `json:"idx"`
	Bytes   Bytes     `json:"bytes"`
	Rep     *totalRep `json:"rep"`   // bytes = pre unit^n post closing^n
	Progs   []string  `json:"progs"` // call programs, one letter per call
	Targets []string  `json:"targets"`
}

type totalRes struct {
	Driver string `json:"driver"`
	Panic  string `json:"panic"`
	Site   string `json:"site"`
	Alloc  uint64 `json:"alloc"`
	Ms     int64  `json:"ms"`
	Calls  int    `json:"calls"`
	N      int    `json:"n"` // how many times the input was read inside this measurement (the programs are measured together)
}

type totalObs struct {
	Idx int        `json:"idx"`
	Len int        `json:"len"`
	Res []totalRes `json:"res"`
}

func (c *totalCase) input() []byte {
	if c.Rep == nil {
		return []byte(c.Bytes)
	}
	var b bytes.Buffer
	b.Write(c.Rep.Pre)
	for i := 0; i < c.Rep.N; i++ {
		b.Write(c.Rep.Unit)
	}
	b.Write(c.Rep.Post)
	for i := 0; i < c.Rep.N; i++ {
		b.Write(c.Rep.Closing)
	}
	return b.Bytes()
}

var totalCatalog = ion.NewCatalog(
	ion.NewSharedSymbolTable("T", 1, []string{"x", "y"}),
	ion.NewSharedSymbolTable("T", 2, []string{"x", "y", "z"}),
	ion.NewSharedSymbolTable("a", 1, []string{"s1"}))

func totalReader(in []byte) ion.Reader { return ion.NewReaderCat(bytes.NewReader(in), totalCatalog) }

// allAccessors calls everything a Reader offers at its current position, whatever the type.
func allAccessors(r ion.Reader) int {
	r.Type()
	r.IsNull()
	r.FieldName()
	r.Annotations()
	r.IsInStruct()
	r.SymbolTable()
	r.BoolValue()
	r.IntSize()
	r.IntValue()
	r.Int64Value()
	r.BigIntValue()
	r.FloatValue()
	r.DecimalValue()
	r.TimestampValue()
	r.StringValue()
	r.SymbolValue()
	r.ByteValue()
	r.Err()
	return 18
}

const totalMaxCalls = 4000000

func driveTraverse(r ion.Reader) int {
	calls := 0
	depth := 0
	for calls < totalMaxCalls {
		calls++
		if r.Next() {
			calls += allAccessors(r)
			t := r.Type()
			if (t == ion.ListType || t == ion.SexpType || t == ion.StructType) && !r.IsNull() {
				calls++
				if r.StepIn() == nil {
					depth++
				}
			}
			continue
		}
		calls += allAccessors(r)
		if depth == 0 {
			break
		}
		calls++
		if r.StepOut() != nil {
			// a reader that cannot step out any more: try once more from the top, then give up
			break
		}
		depth--
	}
	// the calls a careless caller adds at the end
	for k := 0; k < 3; k++ {
		r.Next()
		r.StepOut()
		r.StepIn()
		calls += 3 + allAccessors(r)
	}
	return calls
}

func driveSkip(r ion.Reader) int {
	calls := 0
	for calls < totalMaxCalls && r.Next() {
		calls++
	}
	r.Err()
	r.Next()
	return calls + 2
}

func driveStepIn(r ion.Reader) int {
	calls := 0
	depth := 0
	for calls < totalMaxCalls {
		calls += 2
		ok := r.Next()
		if r.StepIn() == nil {
			depth++
			continue
		}
		if ok {
			continue
		}
		if depth == 0 {
			break
		}
		calls++
		r.StepOut()
		depth--
	}
	return calls
}

func driveProg(r ion.Reader, prog string) int {
	calls := 0
	for _, c := range prog {
		switch c {
		case 'N':
			r.Next()
			calls++
		case 'I':
			r.StepIn()
			calls++
		case 'O':
			r.StepOut()
			calls++
		case 'A':
			calls += allAccessors(r)
		}
	}
	return calls
}

func driveDecode(in []byte) int {
	d := ion.NewDecoder(totalReader(in))
	n := 0
	for n < 10000 {
		n++
		if _, err := d.Decode(); err != nil {
			break
		}
	}
	d.Decode()
	return n + 1
}

var totalCurrent atomic.Value // string: what is running, for the watchdog
var totalStarted atomic.Int64 // when the running driver started (the deadline is per driver)
var totalExtra atomic.Int64   // nanoseconds added to the deadline for the size of the input (50 us per byte, as in the envelope)

func measure(name string, f func() int) totalRes {
	totalCurrent.Store(name)
	totalStarted.Store(time.Now().UnixNano())
	res := totalRes{Driver: name, N: 1}
	var m0, m1 runtime.MemStats
	runtime.ReadMemStats(&m0)
	t0 := time.Now()
	func() {
		defer func() {
			if r := recover(); r != nil {
				res.Panic = fmt.Sprint(r)
				if len(res.Panic) > 300 {
					res.Panic = res.Panic[:300]
				}
				res.Site = topFrame(string(debug.Stack()))
			}
		}()
		res.Calls = f()
	}()
	res.Ms = time.Since(t0).Milliseconds()
	runtime.ReadMemStats(&m1)
	res.Alloc = m1.TotalAlloc - m0.TotalAlloc
	if res.Alloc > 2000000000 {
		res.Alloc = 2000000000 // the judge computes with 32-bit integers
	}
	return res
}

func runTotalCase(c *totalCase, light bool) totalObs {
	in := c.input()
	extra := int64(len(in)) * int64(50*time.Microsecond)
	totalExtra.Store(extra)
	o := totalObs{Idx: c.Idx, Len: len(in), Res: []totalRes{}}
	add := func(r totalRes) {
		// keep the observation small: only what is needed to judge
		o.Res = append(o.Res, r)
	}
	add(measure("traverse", func() int { return driveTraverse(totalReader(in)) }))
	add(measure("skip", func() int { return driveSkip(totalReader(in)) }))
	add(measure("stepin", func() int { return driveStepIn(totalReader(in)) }))
	if len(c.Progs) > 0 {
		// the programs of one input are measured together (they are tiny); a panic names the program
		var bad string
		totalExtra.Store(extra * int64(len(c.Progs)))
		r := measure("progs", func() int {
			calls := 0
			for _, p := range c.Progs {
				bad = p
				calls += driveProg(totalReader(in), p)
			}
			bad = ""
			return calls
		})
		if r.Panic != "" {
			r.Driver = "prog:" + bad
		}
		r.N = len(c.Progs)
		totalExtra.Store(extra)
		add(r)
	}
	add(measure("decode", func() int { return driveDecode(in) }))
	for _, tn := range c.Targets {
		t := goTypeByName(tn)
		if t == nil {
			continue
		}
		add(twice(measure("unmarshal:"+tn, func() int {
			pv := reflect.New(t)
			ion.Unmarshal(in, pv.Interface())
			// and into a target that already holds something: slices of capacity exactly 1, a map with an entry,
			// allocated pointers (a decoder that grows or reuses what it finds must cope with any starting state)
			pf := reflect.New(t)
			prefill(pf.Elem(), 0)
			ion.Unmarshal(in, pf.Interface())
			return 2
		})))
	}
	return o
}

func twice(r totalRes) totalRes { r.N = 2; return r }

// prefill gives a target value a non-zero starting state.
func prefill(v reflect.Value, depth int) {
	if depth > 3 || !v.CanSet() {
		return
	}
	switch v.Kind() {
	case reflect.Slice:
		sl := reflect.MakeSlice(v.Type(), 1, 1)
		v.Set(sl)
	case reflect.Map:
		if v.Type().Key().Kind() == reflect.String {
			m := reflect.MakeMap(v.Type())
			m.SetMapIndex(reflect.ValueOf("old").Convert(v.Type().Key()), reflect.Zero(v.Type().Elem()))
			v.Set(m)
		}
	case reflect.Ptr:
		if v.Type().Elem().Kind() != reflect.Struct || depth < 2 {
			p := reflect.New(v.Type().Elem())
			prefill(p.Elem(), depth+1)
			v.Set(p)
		}
	case reflect.Struct:
		for i := 0; i < v.NumField(); i++ {
			prefill(v.Field(i), depth+1)
		}
	case reflect.Interface:
		if v.NumMethod() == 0 {
			v.Set(reflect.ValueOf([]interface{}{1}))
		}
	}
}

func totalWatchdog(deadline time.Duration, out *bufio.Writer, cur *atomic.Int64, started *atomic.Int64) {
	for {
		time.Sleep(200 * time.Millisecond)
		idx := cur.Load()
		if idx == 0 {
			continue
		}
		if time.Since(time.Unix(0, totalStarted.Load())) > deadline+time.Duration(totalExtra.Load()) {
			name, _ := totalCurrent.Load().(string)
			// the main goroutine may be writing: do not touch `out`; a dedicated line on stderr, then exit 3
			fmt.Fprintf(os.Stderr, "\nHANG idx=%d driver=%s\n", idx, name)
			buf := make([]byte, 1<<16)
			n := runtime.Stack(buf, true)
			os.Stderr.Write(buf[:n])
			os.Exit(3)
		}
	}
}

func cmdTotal(in *bufio.Scanner, out *bufio.Writer) error {
	deadline := 20 * time.Second
	if s := os.Getenv("VERIF_TOTAL_DEADLINE_S"); s != "" {
		var n int
		fmt.Sscan(s, &n)
		if n > 0 {
			deadline = time.Duration(n) * time.Second
		}
	}
	var cur, started atomic.Int64
	go totalWatchdog(deadline, out, &cur, &started)
	for in.Scan() {
		var c totalCase
		if err := json.Unmarshal(in.Bytes(), &c); err != nil {
			return err
		}
		fmt.Fprintf(out, "{\"begin\":%d}\n", c.Idx)
		if err := out.Flush(); err != nil {
			return err
		}
		totalStarted.Store(time.Now().UnixNano())
		cur.Store(int64(c.Idx))
		o := runTotalCase(&c, false)
		cur.Store(0)
		if err := emit(out, o); err != nil {
			return err
		}
		if err := out.Flush(); err != nil {
			return err
		}
	}
	return in.Err()
}

// totalenum: every byte string of a length range over an alphabet, with a prefix (exhaustive short inputs).
// input lines: {"idx":k, "prefix":[...], "alphabet":[...], "minlen":a, "maxlen":b}; one observation per line
// holding only the inputs that misbehaved (panic) and the maximum allocation and time seen.
type enumCase struct {
	Idx      int   `json:"idx"`
	Prefix   Bytes `json:"prefix"`
	First    Bytes `json:"first"` // alphabet of the first byte (a shard of 0..255)
	Alphabet Bytes `json:"alphabet"`
	MinLen   int   `json:"minlen"`
	MaxLen   int   `json:"maxlen"`
}

type enumBad struct {
	Input  Bytes  `json:"input"`
	Driver string `json:"driver"`
	Panic  string `json:"panic"`
	Site   string `json:"site"`
	Alloc  uint64 `json:"alloc"`
	Ms     int64  `json:"ms"`
}

type enumObs struct {
	Idx      int       `json:"idx"`
	Count    int       `json:"count"`
	Bad      []enumBad `json:"bad"`
	MaxAlloc uint64    `json:"maxalloc"`
	MaxMs    int64     `json:"maxms"`
}

func cmdTotalEnum(in *bufio.Scanner, out *bufio.Writer) error {
	var cur, started atomic.Int64
	go totalWatchdog(20*time.Second, out, &cur, &started)
	targets := []string{"iface", "string", "int", "bytes", "scalars", "timestamp", "decimalptr", "token"}
	for in.Scan() {
		var c enumCase
		if err := json.Unmarshal(in.Bytes(), &c); err != nil {
			return err
		}
		o := enumObs{Idx: c.Idx, Bad: []enumBad{}}
		var rec func(cur []byte, n int) error
		try := func(tail []byte) error {
			input := append(append([]byte{}, c.Prefix...), tail...)
			fmt.Fprintf(out, "{\"begin\":%d,\"input\":%q}\n", c.Idx, fmt.Sprintf("%x", input))
			if err := out.Flush(); err != nil {
				return err
			}
			totalStarted.Store(time.Now().UnixNano())
			cur.Store(int64(c.Idx))
			tc := totalCase{Idx: c.Idx, Bytes: input, Progs: []string{"AIANAOA", "IIINNNOOO", "NAIOANAIO"}, Targets: targets}
			r := runTotalCase(&tc, true)
			cur.Store(0)
			o.Count++
			for _, x := range r.Res {
				if x.Alloc > o.MaxAlloc {
					o.MaxAlloc = x.Alloc
				}
				if x.Ms > o.MaxMs {
					o.MaxMs = x.Ms
				}
				if x.Panic != "" || x.Alloc > 8<<20 || x.Ms > 5000 {
					o.Bad = append(o.Bad, enumBad{Input: input, Driver: x.Driver, Panic: x.Panic, Site: x.Site, Alloc: x.Alloc, Ms: x.Ms})
				}
			}
			return nil
		}
		rec = func(tail []byte, n int) error {
			if n >= c.MinLen {
				if err := try(tail); err != nil {
					return err
				}
			}
			if n == c.MaxLen {
				return nil
			}
			alpha := c.Alphabet
			if n == 0 && len(c.First) > 0 {
				alpha = c.First
			}
			for _, b := range alpha {
				if err := rec(append(tail, b), n+1); err != nil {
					return err
				}
			}
			return nil
		}
		if err := rec(nil, 0); err != nil {
			return err
		}
		if err := emit(out, o); err != nil {
			return err
		}
		if err := out.Flush(); err != nil {
			return err
		}
	}
	return in.Err()
}

func init() {
	register("total", cmdTotal)
	register("totalenum", cmdTotalEnum)
}
