package main

// chunk / wfault: Readers over scheduled io.Readers, Writers over failing io.Writers (C19).

import (
	"bufio"
	"bytes"
	"encoding/json"
	"errors"
	"io"

	"github.com/amzn/ion-go/ion"
)

var errInjected = errors.New("injected I/O failure")

type sched struct {
	Chunks      []int `json:"chunks"`
	EOFWithLast bool  `json:"eofWithLast"`
	FailAt      int   `json:"failAt"`
}

// schedReader hands over data according to a schedule (see spec/Gen_IOSched.tla).
type schedReader struct {
	data  []byte
	pos   int
	s     sched
	k     int // next chunk
	carry int // rest of the current chunk
}

func (r *schedReader) Read(p []byte) (int, error) {
	if r.s.FailAt >= 0 && r.pos >= r.s.FailAt {
		return 0, errInjected
	}
	if r.pos >= len(r.data) {
		return 0, io.EOF
	}
	if len(p) == 0 {
		return 0, nil
	}
	n := r.carry
	if n == 0 {
		if r.k < len(r.s.Chunks) {
			n = r.s.Chunks[r.k]
			r.k++
			if n == 0 {
				return 0, nil // a zero-length read
			}
		} else {
			n = len(r.data) - r.pos
		}
	}
	take := n
	if take > len(p) {
		take = len(p)
	}
	if take > len(r.data)-r.pos {
		take = len(r.data) - r.pos
	}
	if r.s.FailAt >= 0 && take > r.s.FailAt-r.pos {
		take = r.s.FailAt - r.pos
	}
	r.carry = n - take
	if r.pos+take >= len(r.data) {
		r.carry = 0
	}
	copy(p, r.data[r.pos:r.pos+take])
	r.pos += take
	if r.pos >= len(r.data) && r.s.EOFWithLast && r.s.FailAt < 0 {
		return take, io.EOF
	}
	return take, nil
}

type chunkCase struct {
	Doc    int     `json:"doc"`
	Bytes  Bytes   `json:"bytes"`
	Scheds []sched `json:"scheds"`
}

type readObs struct {
	Back  []Val  `json:"back"`
	Err   string `json:"err"`
	Panic string `json:"panic"`
}

type ioObs struct {
	Idx    int      `json:"idx"`
	Kind   string   `json:"kind"`
	Doc    int      `json:"doc"`
	Sched  *sched   `json:"sched,omitempty"`
	FailAt int      `json:"failAt"`
	Base   *readObs `json:"base,omitempty"`
	Got    *readObs `json:"got,omitempty"`
	// writer half
	Mode      string   `json:"mode,omitempty"`
	K         int      `json:"k"`
	Transient bool     `json:"transient"`
	Results   []string `json:"results"`
	FinishAt  int      `json:"finishAt"`
	Faulted   bool     `json:"faulted"`
	Accepted  Bytes    `json:"accepted"`
	Clean     Bytes    `json:"clean"`
}

func readWith(data []byte, s sched) *readObs {
	o := &readObs{Back: []Val{}}
	err, pan, site := safely(func() error {
		r := ion.NewReader(&schedReader{data: data, s: s})
		back, err := projectAll(r)
		o.Back = back
		if err == nil {
			err = r.Err()
		}
		return err
	})
	if pan {
		o.Panic = site + ": " + err.Error()
	} else {
		o.Err = errString(err)
	}
	return o
}

func cmdChunk(in *bufio.Scanner, out *bufio.Writer) error {
	idx := 0
	for in.Scan() {
		var c chunkCase
		if err := json.Unmarshal(in.Bytes(), &c); err != nil {
			return err
		}
		base := readWith(c.Bytes, sched{FailAt: -1})
		for i := range c.Scheds {
			idx++
			s := c.Scheds[i]
			got := readWith(c.Bytes, s)
			if s.FailAt >= 0 {
				// an injected failure changes the error text by construction: keep only nil-ness
				if got.Err != "" {
					got.Err = "error"
				}
			}
			o := ioObs{Idx: idx, Kind: "reader", Doc: c.Doc, Sched: &s, FailAt: s.FailAt, Base: base, Got: got,
				Results: []string{}, Accepted: Bytes{}, Clean: Bytes{}}
			if err := emit(out, o); err != nil {
				return err
			}
		}
	}
	return in.Err()
}

// faultyWriter accepts writes until the k-th Write call (0-based), which fails; a transient
// fault fails that one call only, a permanent one fails every later call too.
type faultyWriter struct {
	buf       bytes.Buffer
	calls     int
	k         int
	transient bool
	faulted   bool
}

func (w *faultyWriter) Write(p []byte) (int, error) {
	c := w.calls
	w.calls++
	if w.k >= 0 && (c == w.k || (!w.transient && c > w.k)) {
		w.faulted = true
		return 0, errInjected
	}
	if w.faulted {
		// after a transient fault the sink works again; what it accepts now is no longer "before the first failure"
		return len(p), nil
	}
	return w.buf.Write(p)
}

// flatten turns a forest into the call sequence a client makes (one entry per Writer call).
func flatten(vs []Val, calls []Call) []Call {
	for i := range vs {
		v := vs[i]
		for j := range v.Ann {
			t := v.Ann[j]
			calls = append(calls, Call{Op: "Annotation", M: "Annotation", Tok: &t})
		}
		if v.Null || (v.T != "list" && v.T != "sexp" && v.T != "struct") {
			vv := v
			vv.Ann = nil
			calls = append(calls, Call{Op: "Scalar", M: "", V: &vv})
			continue
		}
		kind := v.T
		begin := map[string]string{"list": "BeginList", "sexp": "BeginSexp", "struct": "BeginStruct"}[kind]
		end := map[string]string{"list": "EndList", "sexp": "EndSexp", "struct": "EndStruct"}[kind]
		calls = append(calls, Call{Op: "Begin", M: begin, Kind: kind})
		if kind == "struct" {
			var fs []Field
			decodeInto(v.V, &fs)
			for k := range fs {
				n := fs[k].Name
				calls = append(calls, Call{Op: "FieldName", M: "FieldName", Tok: &n})
				calls = flatten([]Val{fs[k].Val}, calls)
			}
		} else {
			var kids []Val
			decodeInto(v.V, &kids)
			calls = flatten(kids, calls)
		}
		calls = append(calls, Call{Op: "End", M: end, Kind: kind})
	}
	return calls
}

type wfaultCase struct {
	Forest []Val `json:"forest"`
}

func runCalls(mode string, sink io.Writer, calls []Call) []string {
	res := []string{}
	w := newWriter(mode, sink, nil)
	for i := range calls {
		c := calls[i]
		err, pan, _ := safely(func() error { return applyCall(w, c) })
		switch {
		case pan:
			res = append(res, "panic")
			return res
		case err != nil:
			res = append(res, "err")
		default:
			res = append(res, "ok")
		}
	}
	return res
}

func cmdWfault(in *bufio.Scanner, out *bufio.Writer) error {
	idx := 0
	for in.Scan() {
		var c wfaultCase
		if err := json.Unmarshal(in.Bytes(), &c); err != nil {
			return err
		}
		calls := flatten(c.Forest, nil)
		finishAt := len(calls) + 1
		// program: the forest, Finish, then two probes that must keep failing once anything failed
		one := Val{T: "int", V: mustJSON(IntV{Mag: Bytes{1}})}
		calls = append(calls, Call{Op: "Finish", M: "Finish"}, Call{Op: "Scalar", M: "", V: &one}, Call{Op: "Finish", M: "Finish"})
		for _, mode := range []string{"text", "pretty", "binary"} {
			clean := &faultyWriter{k: -1}
			cres := runCalls(mode, clean, calls[:finishAt])
			okClean := true
			for _, r := range cres {
				if r != "ok" {
					okClean = false
				}
			}
			if !okClean {
				continue // the fault-free program does not succeed: not a C19 case
			}
			nwrites := clean.calls
			for k := 0; k < nwrites; k++ {
				for _, transient := range []bool{false, true} {
					idx++
					sink := &faultyWriter{k: k, transient: transient}
					res := runCalls(mode, sink, calls)
					o := ioObs{Idx: idx, Kind: "writer", Mode: mode, K: k, Transient: transient, Results: res, FinishAt: finishAt,
						Faulted: sink.faulted, Accepted: append(Bytes{}, sink.buf.Bytes()...), Clean: append(Bytes{}, clean.buf.Bytes()...), FailAt: -1}
					if err := emit(out, o); err != nil {
						return err
					}
				}
			}
		}
	}
	return in.Err()
}

func init() {
	register("chunk", cmdChunk)
	register("wfault", cmdWfault)
}
