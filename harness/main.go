package main

// verifharness: executes cases produced by the TLA+ specification against the real
// ion-go (the working tree the module's replace directive points to) and records what
// happened as ndjson for the TLC judges.  usage: harness <subcommand> < cases > obs

import (
	"bufio"
	"encoding/json"
	"fmt"
	"os"
	"sort"
)

type subcommand func(in *bufio.Scanner, out *bufio.Writer) error

var subcommands = map[string]subcommand{}

func register(name string, f subcommand) { subcommands[name] = f }

func main() {
	if len(os.Args) < 2 {
		names := []string{}
		for n := range subcommands {
			names = append(names, n)
		}
		sort.Strings(names)
		fmt.Fprintln(os.Stderr, "usage: harness <subcommand>; subcommands:", names)
		os.Exit(2)
	}
	f, ok := subcommands[os.Args[1]]
	if !ok {
		fmt.Fprintln(os.Stderr, "harness: unknown subcommand", os.Args[1])
		os.Exit(2)
	}
	in := bufio.NewScanner(os.Stdin)
	in.Buffer(make([]byte, 1<<20), 1<<30)
	out := bufio.NewWriterSize(os.Stdout, 1<<20)
	if err := f(in, out); err != nil {
		out.Flush()
		fmt.Fprintln(os.Stderr, "harness:", err)
		os.Exit(2)
	}
	if err := out.Flush(); err != nil {
		fmt.Fprintln(os.Stderr, "harness:", err)
		os.Exit(2)
	}
}

func emit(out *bufio.Writer, x interface{}) error {
	b, err := json.Marshal(x)
	if err != nil {
		return err
	}
	out.Write(b)
	return out.WriteByte('\n')
}

func errString(err error) string {
	if err == nil {
		return ""
	}
	return err.Error()
}
