package main

// decimal: the Decimal methods on abstract operands (C14).

import (
	"bufio"
	"encoding/json"

	"github.com/amzn/ion-go/ion"
)

type decCase struct {
	Op string `json:"op"`
	A  DecV   `json:"a"`
	B  *DecV  `json:"b"`
	N  int    `json:"n"`
}

type decObs struct {
	Idx      int    `json:"idx"`
	Res      string `json:"res"`
	D        DecV   `json:"d"`
	N        int    `json:"n"`
	B        bool   `json:"b"`
	Text     Bytes  `json:"text"`
	ParsedOK bool   `json:"parsedok"`
	Parsed   DecV   `json:"parsed"`
	Msg      string `json:"msg"`
	// the operands as they are after the operation (they must not have been changed by it)
	AAfter DecV `json:"aafter"`
	BAfter DecV `json:"bafter"`
}

func cmdDecimal(in *bufio.Scanner, out *bufio.Writer) error {
	idx := 0
	zero := DecV{Coef: Bytes{}}
	for in.Scan() {
		var c decCase
		if err := json.Unmarshal(in.Bytes(), &c); err != nil {
			return err
		}
		idx++
		o := decObs{Idx: idx, D: zero, Parsed: zero, Text: Bytes{}, AAfter: zero, BAfter: zero}
		err, pan, site := safely(func() error {
			a := c.A.Ion()
			var b *ion.Decimal
			if c.B != nil {
				b = c.B.Ion()
			}
			dec := func(d *ion.Decimal) {
				o.Res, o.D = "val", decFromIon(d)
			}
			switch c.Op {
			case "Add":
				dec(a.Add(b))
			case "Sub":
				dec(a.Sub(b))
			case "Mul":
				dec(a.Mul(b))
			case "Neg":
				dec(a.Neg())
			case "Abs":
				dec(a.Abs())
			case "ShiftL":
				dec(a.ShiftL(c.N))
			case "ShiftR":
				dec(a.ShiftR(c.N))
			case "Truncate":
				dec(a.Truncate(c.N))
			case "Cmp":
				o.Res, o.N = "int", a.Cmp(b)
			case "Sign":
				o.Res, o.N = "int", a.Sign()
			case "Equal":
				o.Res, o.B = "bool", a.Equal(b)
			case "String":
				s := a.String()
				o.Res, o.Text = "text", Bytes(s)
				if p, err := ion.ParseDecimal(s); err == nil {
					o.ParsedOK, o.Parsed = true, decFromIon(p)
				} else {
					o.Msg = err.Error()
				}
			}
			o.AAfter = decFromIon(a)
			if b != nil {
				o.BAfter = decFromIon(b)
			}
			return nil
		})
		if pan {
			o.Res, o.Msg = "panic", site+": "+err.Error()
		}
		if err := emit(out, o); err != nil {
			return err
		}
	}
	return in.Err()
}

func init() { register("decimal", cmdDecimal) }
