package main

// conc: independent workloads over shared symbol tables, a shared catalog, the system symbol table and shared
// Go types (C18).  Three execution modes of the same group of workloads:
//
//	solo  - each workload alone (fresh shared objects); records its output and its program, the sequence of
//	        accesses to shared state reported by the ion.VerifYield hook
//	gated - all workloads as goroutines; the hook holds each goroutine before every shared access and a
//	        scheduler releases them one step at a time in the order of a schedule computed by the
//	        specification (spec/Conc.tla); logs the step sequence and a fingerprint of the shared objects
//	        after every step
//	free  - all workloads as goroutines released together, no gating (the build with the race detector runs
//	        this mode: gating would order every access and hide races)

import (
	"bufio"
	"bytes"
	"crypto/sha1"
	"encoding/hex"
	"encoding/json"
	"fmt"
	"math/rand"
	"reflect"
	"runtime"
	"strconv"
	"strings"
	"sync"
	"time"

	"github.com/amzn/ion-go/ion"
)

type concWorkload struct {
	Kind    string `json:"kind"`
	Bytes   Bytes  `json:"bytes"`
	Mode    string `json:"mode"`    // write: text | pretty | binary
	Forest  []Val  `json:"forest"`  // write
	Imports []int  `json:"imports"` // 1-based indices into the catalogue of the group
	Type    string `json:"type"`    // marshal / unmarshal: name of a harness Go type, or "dyn" (fresh struct type)
	Seed    int64  `json:"seed"`
	Nonce   int    `json:"nonce"` // dyn: part of the field names, so that every case gets a never-seen type
	N       int    `json:"n"`
}

type concCase struct {
	ID       string         `json:"id"`
	RunMode  string         `json:"runmode"` // solo | gated | free
	Cat      []catEntry     `json:"cat"`
	Workers  []concWorkload `json:"workers"`
	Schedule []int          `json:"schedule"` // 1-based worker indices
}

type concStep struct {
	W    int    `json:"w"` // 1-based worker
	Site string `json:"site"`
	Obj  string `json:"obj"`
	FP   string `json:"fp"` // fingerprint of the shared objects after the step (gated mode)
}

type concObs struct {
	ID      string       `json:"id"`
	RunMode string       `json:"runmode"`
	Outs    []Bytes      `json:"outs"`
	Progs   [][]concStep `json:"progs"` // solo: per worker
	Log     []concStep   `json:"log"`   // gated: global order
	FP0     string       `json:"fp0"`   // fingerprint of the fresh shared objects
	FPEnd   string       `json:"fpend"` // after all workers finished
	Problem string       `json:"problem"`
}

type concEnv struct {
	entries []catEntry
	tables  []ion.SharedSymbolTable
	cat     ion.Catalog
	names   map[interface{}]string
	lists   map[string][]ion.SharedSymbolTable
}

func newConcEnv(entries []catEntry) *concEnv {
	e := &concEnv{entries: entries, names: map[interface{}]string{}}
	for i, c := range entries {
		t := ion.NewSharedSymbolTable(string(c.Name), c.Version, strs(c.Syms))
		e.tables = append(e.tables, t)
		e.names[t] = "T" + strconv.Itoa(i+1)
	}
	e.cat = ion.NewCatalog(e.tables...)
	e.names[e.cat] = "cat"
	e.names[ion.V1SystemSymbolTable] = "sys"
	e.buildLists()
	return e
}

func (e *concEnv) objName(obj interface{}) string {
	if n, ok := e.names[obj]; ok {
		return n
	}
	if t, ok := obj.(reflect.Type); ok {
		s := t.String()
		if len(s) > 40 {
			h := sha1.Sum([]byte(s))
			s = s[:24] + "#" + hex.EncodeToString(h[:4])
		}
		return "type:" + s
	}
	return "private" // a table derived by Adjust, or one a workload built for itself
}

// imports returns THE list of shared tables for an index set: one slice per set, built with spare capacity when the
// environment is created and handed to every workload that asks for that set (a caller's import list is shared state
// too: a library that edits it in place disturbs the other users of the list).
func (e *concEnv) imports(idx []int) []ion.SharedSymbolTable {
	return e.lists[fmt.Sprint(idx)]
}

func (e *concEnv) buildLists() {
	e.lists = map[string][]ion.SharedSymbolTable{}
	n := len(e.tables)
	for mask := 0; mask < 1<<uint(n); mask++ {
		idx := []int{}
		for i := 0; i < n; i++ {
			if mask&(1<<uint(i)) != 0 {
				idx = append(idx, i+1)
			}
		}
		l := make([]ion.SharedSymbolTable, 0, len(idx)+3)
		for _, i := range idx {
			l = append(l, e.tables[i-1])
		}
		e.lists[fmt.Sprint(idx)] = l
	}
}

var concProbes = []string{"zz", "name", "$ion", "symbols", "x", ""}

// fingerprint: everything the public API shows of the shared objects.
func (e *concEnv) fingerprint() string {
	var b strings.Builder
	show := func(t ion.SharedSymbolTable) {
		fmt.Fprintf(&b, "%s/%d/%d/%q/%s;", t.Name(), t.Version(), t.MaxID(), t.Symbols(), t.String())
		for _, s := range t.Symbols() {
			id, ok := t.FindByName(s)
			fmt.Fprintf(&b, "%d%v,", id, ok)
		}
		for _, s := range concProbes {
			id, ok := t.FindByName(s)
			fmt.Fprintf(&b, "%d%v,", id, ok)
		}
		for id := uint64(0); id <= t.MaxID()+2; id++ {
			s, ok := t.FindByID(id)
			fmt.Fprintf(&b, "%q%v,", s, ok)
		}
	}
	for i, t := range e.tables {
		show(t)
		c := e.entries[i]
		fmt.Fprintf(&b, "exact=%v;", e.cat.FindExact(string(c.Name), c.Version) == t)
		l := e.cat.FindLatest(string(c.Name))
		fmt.Fprintf(&b, "latest=%s/%d;", l.Name(), l.Version())
		fmt.Fprintf(&b, "absent=%v;", e.cat.FindExact(string(c.Name), c.Version+7) == nil)
	}
	show(ion.V1SystemSymbolTable)
	for mask := 0; mask < 1<<uint(len(e.tables)); mask++ { // the shared import lists, in a fixed order
		idx := []int{}
		for i := range e.tables {
			if mask&(1<<uint(i)) != 0 {
				idx = append(idx, i+1)
			}
		}
		l := e.lists[fmt.Sprint(idx)]
		fmt.Fprintf(&b, "list%v=", idx)
		for _, t := range l[:cap(l)][:len(idx)] {
			if t == nil {
				b.WriteString("nil,")
			} else {
				fmt.Fprintf(&b, "%s/%d,", t.Name(), t.Version())
			}
		}
	}
	fmt.Fprintf(&b, "nocat=%v", e.cat.FindLatest("no such table") == nil)
	h := sha1.Sum([]byte(b.String()))
	return hex.EncodeToString(h[:8])
}

// ---------------------------------------------------------------- workloads

func dynType(seed int64, nonce int) reflect.Type {
	r := rand.New(rand.NewSource(seed))
	n := 40 + r.Intn(80)
	kinds := []reflect.Type{reflect.TypeOf(int(0)), reflect.TypeOf(""), reflect.TypeOf(false), reflect.TypeOf(float64(0)),
		reflect.TypeOf([]int{}), reflect.TypeOf([]byte{}), reflect.TypeOf(map[string]int{})}
	fs := make([]reflect.StructField, n)
	for i := range fs {
		fs[i] = reflect.StructField{Name: fmt.Sprintf("F%d_%d", nonce, i), Type: kinds[r.Intn(len(kinds))]}
		switch r.Intn(5) {
		case 0:
			fs[i].Tag = reflect.StructTag(fmt.Sprintf(`ion:"f%d"`, i))
		case 1:
			fs[i].Tag = `ion:",omitempty"`
		}
	}
	return reflect.StructOf(fs)
}

func concType(w concWorkload) reflect.Type {
	if w.Type == "dyn" {
		return dynType(w.Seed, w.Nonce)
	}
	return goTypeByName(w.Type)
}

func runConcWorkload(e *concEnv, w concWorkload) []byte {
	var out bytes.Buffer
	err, pan, site := safely(func() error {
		switch w.Kind {
		case "read":
			r := ion.NewReaderCat(bytes.NewReader([]byte(w.Bytes)), e.cat)
			back, err := projectAll(r)
			j, _ := json.Marshal(back)
			out.Write(j)
			return err
		case "decode":
			d := ion.NewDecoder(ion.NewReaderCat(bytes.NewReader([]byte(w.Bytes)), e.cat))
			for {
				v, err := d.Decode()
				if err != nil {
					if err == ion.ErrNoInput {
						return nil
					}
					return err
				}
				t, merr := ion.MarshalText(v)
				fmt.Fprintf(&out, "%T %s %v\n", v, t, merr)
			}
		case "write":
			wr := newWriterImports(w.Mode, &out, e.imports(w.Imports))
			for _, v := range w.Forest {
				if err := writeValue(wr, v); err != nil {
					return err
				}
			}
			return wr.Finish()
		case "marshal":
			t := concType(w)
			pv := reflect.New(t)
			randValue(rand.New(rand.NewSource(w.Seed)), pv.Elem(), 0, "")
			if w.Mode == "binary" {
				b, err := marshalBinarySorted(pv.Interface(), e.imports(w.Imports))
				out.Write(b)
				return err
			}
			b, err := ion.MarshalText(pv.Interface())
			out.Write(b)
			return err
		case "encode":
			t := concType(w)
			var enc *ion.Encoder
			if w.Mode == "binary" {
				enc = ion.NewEncoderOpts(ion.NewBinaryWriter(&out, e.imports(w.Imports)...), ion.EncodeSortMaps)
			} else {
				enc = ion.NewEncoderOpts(ion.NewTextWriter(&out, e.imports(w.Imports)...), ion.EncodeSortMaps)
			}
			r := rand.New(rand.NewSource(w.Seed))
			for i := 0; i < 1+w.N; i++ {
				pv := reflect.New(t)
				randValue(r, pv.Elem(), 0, "")
				if err := enc.Encode(pv.Interface()); err != nil {
					return err
				}
			}
			return enc.Finish()
		case "unmarshal":
			// marshal a value (private to this workload), then unmarshal it into a fresh value of the type
			t := concType(w)
			pv := reflect.New(t)
			randValue(rand.New(rand.NewSource(w.Seed)), pv.Elem(), 0, "")
			b, err := marshalBinarySorted(pv.Interface(), e.imports(w.Imports))
			if err != nil {
				return err
			}
			back := reflect.New(t)
			err = ion.Unmarshal(b, back.Interface(), e.imports(w.Imports)...)
			j, _ := json.Marshal(walk(back.Elem()))
			out.Write(j)
			return err
		case "sstapi":
			for _, t := range e.imports(w.Imports) {
				top := t.MaxID() + uint64(w.N)
				for k := uint64(0); k <= top; k++ {
					a := t.Adjust(k)
					fmt.Fprintf(&out, "%d:%d:%q;", k, a.MaxID(), a.Symbols())
					if s, ok := a.FindByID(k); ok {
						tok := a.Find(s)
						fmt.Fprintf(&out, "%v;", tok != nil)
					}
				}
				out.WriteString(t.String())
				tw := ion.NewTextWriter(&out)
				if err := t.WriteTo(tw); err != nil {
					return err
				}
				if err := tw.Finish(); err != nil {
					return err
				}
			}
			return nil
		case "builder":
			b := ion.NewSymbolTableBuilder(e.imports(w.Imports)...)
			r := rand.New(rand.NewSource(w.Seed))
			for i := 0; i < 4+w.N; i++ {
				var s string
				if r.Intn(2) == 0 && len(e.entries) > 0 {
					c := e.entries[r.Intn(len(e.entries))]
					if len(c.Syms) > 0 {
						s = string(c.Syms[r.Intn(len(c.Syms))])
					}
				} else {
					s = fmt.Sprintf("local%d", r.Intn(6))
				}
				id, ok := b.Add(s)
				fmt.Fprintf(&out, "%q=%d/%v;", s, id, ok)
			}
			st := b.Build()
			out.WriteString(st.String())
			bw := ion.NewBinaryWriterLST(&out, st)
			bw.WriteSymbolFromString("local1")
			bw.WriteSymbolFromString("name")
			return bw.Finish()
		}
		return fmt.Errorf("harness: unknown workload kind %q", w.Kind)
	})
	if pan {
		fmt.Fprintf(&out, "\x00panic at %s", site)
	} else if err != nil {
		fmt.Fprintf(&out, "\x00err: %s", err.Error())
	}
	return out.Bytes()
}

// marshalBinarySorted is MarshalBinary with map keys in sorted order: the key order of Go maps is random even in a
// single goroutine, and the comparison with the solo run needs a deterministic output.
func marshalBinarySorted(v interface{}, imps []ion.SharedSymbolTable) ([]byte, error) {
	var buf bytes.Buffer
	enc := ion.NewEncoderOpts(ion.NewBinaryWriter(&buf, imps...), ion.EncodeSortMaps)
	if err := enc.Encode(v); err != nil {
		return nil, err
	}
	if err := enc.Finish(); err != nil {
		return nil, err
	}
	return buf.Bytes(), nil
}

func newWriterImports(mode string, out *bytes.Buffer, imps []ion.SharedSymbolTable) ion.Writer {
	switch mode {
	case "text":
		return ion.NewTextWriter(out, imps...)
	case "pretty":
		return ion.NewTextWriterOpts(out, ion.TextWriterPretty, imps...)
	}
	return ion.NewBinaryWriter(out, imps...)
}

// ---------------------------------------------------------------- goroutine identity

func goid() int64 {
	var buf [64]byte
	n := runtime.Stack(buf[:], false)
	f := strings.Fields(string(buf[:n]))
	if len(f) < 2 {
		return -1
	}
	id, _ := strconv.ParseInt(f[1], 10, 64)
	return id
}

// ---------------------------------------------------------------- solo

func concSolo(c concCase) concObs {
	o := concObs{ID: c.ID, RunMode: "solo"}
	for i, w := range c.Workers {
		e := newConcEnv(c.Cat)
		if i == 0 {
			o.FP0 = e.fingerprint()
		}
		prog := []concStep{{W: i + 1, Site: "start", Obj: "-"}}
		rec := true
		ion.VerifYield = func(site string, obj interface{}) {
			if rec {
				prog = append(prog, concStep{W: i + 1, Site: site, Obj: e.objName(obj)})
			}
		}
		out := runConcWorkload(e, w)
		rec = false
		ion.VerifYield = nil
		o.Outs = append(o.Outs, append(Bytes{}, out...))
		o.Progs = append(o.Progs, prog)
		if fp := e.fingerprint(); fp != o.FP0 {
			o.Problem = fmt.Sprintf("worker %d alone changed the shared objects", i+1)
		}
		o.FPEnd = o.FP0
	}
	return o
}

// ---------------------------------------------------------------- gated

type concEvent struct {
	w    int // 0-based
	site string
	obj  string
	done bool
	out  []byte
}

func concGated(c concCase) concObs {
	o := concObs{ID: c.ID, RunMode: "gated", Log: []concStep{}}
	e := newConcEnv(c.Cat)
	o.FP0 = e.fingerprint()
	n := len(c.Workers)
	turns := make([]chan struct{}, n)
	events := make(chan concEvent)
	var ids sync.Map // goroutine id -> worker
	ion.VerifYield = func(site string, obj interface{}) {
		w, ok := ids.Load(goid())
		if !ok {
			return // the scheduler's own fingerprinting
		}
		events <- concEvent{w: w.(int), site: site, obj: e.objName(obj)}
		<-turns[w.(int)]
	}
	defer func() { ion.VerifYield = nil }()
	for i := range c.Workers {
		turns[i] = make(chan struct{})
		go func(i int) {
			ids.Store(goid(), i)
			events <- concEvent{w: i, site: "start", obj: "-"}
			<-turns[i]
			out := runConcWorkload(e, c.Workers[i])
			events <- concEvent{w: i, done: true, out: out}
		}(i)
	}
	pending := make([]*concEvent, n)
	finished := make([]bool, n)
	outs := make([]Bytes, n)
	wait := func() bool {
		select {
		case ev := <-events:
			if ev.done {
				finished[ev.w] = true
				outs[ev.w] = append(Bytes{}, ev.out...)
				pending[ev.w] = nil
			} else {
				pending[ev.w] = &ev
			}
			return true
		case <-time.After(60 * time.Second):
			return false
		}
	}
	for i := 0; i < n; i++ { // every worker reaches its start gate
		if !wait() {
			o.Problem = "harness: a worker did not reach its start gate"
			return o
		}
	}
	sched := c.Schedule
	for {
		next := -1
		for len(sched) > 0 && next < 0 {
			k := sched[0] - 1
			sched = sched[1:]
			if k >= 0 && k < n && !finished[k] {
				next = k
			}
		}
		if next < 0 {
			for k := 0; k < n; k++ {
				if !finished[k] {
					next = k
					break
				}
			}
		}
		if next < 0 {
			break
		}
		p := pending[next]
		turns[next] <- struct{}{}
		if !wait() {
			o.Problem = fmt.Sprintf("worker %d did not come back within 60 s after %s", next+1, p.site)
			return o
		}
		o.Log = append(o.Log, concStep{W: next + 1, Site: p.site, Obj: p.obj, FP: e.fingerprint()})
	}
	o.Outs = outs
	o.FPEnd = e.fingerprint()
	return o
}

// ---------------------------------------------------------------- free

func concFree(c concCase) concObs {
	o := concObs{ID: c.ID, RunMode: "free"}
	// the reference fingerprint comes from a twin environment: querying the real one before the goroutines start would
	// be a first use of its own (and would warm whatever a first use warms)
	o.FP0 = newConcEnv(c.Cat).fingerprint()
	e := newConcEnv(c.Cat)
	n := len(c.Workers)
	outs := make([]Bytes, n)
	start := make(chan struct{})
	var wg sync.WaitGroup
	for i := range c.Workers {
		wg.Add(1)
		go func(i int) {
			defer wg.Done()
			<-start
			outs[i] = append(Bytes{}, runConcWorkload(e, c.Workers[i])...)
		}(i)
	}
	close(start)
	wg.Wait()
	o.Outs = outs
	o.FPEnd = e.fingerprint()
	return o
}

func cmdConc(in *bufio.Scanner, out *bufio.Writer) error {
	for in.Scan() {
		var c concCase
		if err := json.Unmarshal(in.Bytes(), &c); err != nil {
			return err
		}
		var o concObs
		switch c.RunMode {
		case "solo":
			o = concSolo(c)
		case "gated":
			o = concGated(c)
		case "free":
			o = concFree(c)
		default:
			return fmt.Errorf("conc: unknown run mode %q", c.RunMode)
		}
		if o.Outs == nil {
			o.Outs = []Bytes{}
		}
		if o.Progs == nil {
			o.Progs = [][]concStep{}
		}
		if o.Log == nil {
			o.Log = []concStep{}
		}
		if err := emit(out, o); err != nil {
			return err
		}
	}
	return in.Err()
}

func init() { register("conc", cmdConc) }
