package main

// ts: Timestamp construction, String, ParseTimestamp (C15).

import (
	"bufio"
	"encoding/json"

	"github.com/amzn/ion-go/ion"
)

type tsCase struct {
	Ts       TsV   `json:"ts"`
	Spelling Bytes `json:"spelling"`
}

type tsObs struct {
	Idx       int    `json:"idx"`
	Panic     string `json:"panic"`
	Text      Bytes  `json:"text"`
	ParsedOK  bool   `json:"parsedok"`
	Parsed    TsV    `json:"parsed"`
	SpelledOK bool   `json:"spelledok"`
	Spelled   TsV    `json:"spelled"`
	Msg       string `json:"msg"`
}

func cmdTs(in *bufio.Scanner, out *bufio.Writer) error {
	idx := 0
	zero := TsV{Frac: Bytes{}}
	for in.Scan() {
		var c tsCase
		if err := json.Unmarshal(in.Bytes(), &c); err != nil {
			return err
		}
		idx++
		o := tsObs{Idx: idx, Text: Bytes{}, Parsed: zero, Spelled: zero}
		err, pan, site := safely(func() error {
			t := c.Ts.Ion()
			s := t.String()
			o.Text = Bytes(s)
			if p, err := ion.ParseTimestamp(s); err == nil {
				o.ParsedOK, o.Parsed = true, tsFromIon(p)
			} else {
				o.Msg = err.Error()
			}
			if p, err := ion.ParseTimestamp(string(c.Spelling)); err == nil {
				o.SpelledOK, o.Spelled = true, tsFromIon(p)
			} else {
				o.Msg += " | " + err.Error()
			}
			return nil
		})
		if pan {
			o.Panic = site + ": " + err.Error()
		}
		if err := emit(out, o); err != nil {
			return err
		}
	}
	return in.Err()
}

type tsTextCase struct {
	Text Bytes `json:"text"`
}

type tsTextObs struct {
	Idx   int    `json:"idx"`
	OK    bool   `json:"ok"`    // ParseTimestamp accepted
	Ts    TsV    `json:"ts"`
	ROK   bool   `json:"rok"`   // the text Reader accepted it as one timestamp
	RTs   TsV    `json:"rts"`
	Panic string `json:"panic"`
}

// tstext: ParseTimestamp and the text Reader on literal texts (invalid literals, long fractions).
func cmdTsText(in *bufio.Scanner, out *bufio.Writer) error {
	idx := 0
	zero := TsV{Frac: Bytes{}}
	for in.Scan() {
		var c tsTextCase
		if err := json.Unmarshal(in.Bytes(), &c); err != nil {
			return err
		}
		idx++
		o := tsTextObs{Idx: idx, Ts: zero, RTs: zero}
		err, pan, site := safely(func() error {
			if p, err := ion.ParseTimestamp(string(c.Text)); err == nil {
				o.OK, o.Ts = true, tsFromIon(p)
			}
			r := ion.NewReaderBytes([]byte(c.Text))
			if r.Next() && r.Type() == ion.TimestampType {
				if t, err := r.TimestampValue(); err == nil && t != nil && !r.Next() && r.Err() == nil {
					o.ROK, o.RTs = true, tsFromIon(*t)
				}
			}
			return nil
		})
		if pan {
			o.Panic = site + ": " + err.Error()
		}
		if err := emit(out, o); err != nil {
			return err
		}
	}
	return in.Err()
}

func init() {
	register("ts", cmdTs)
	register("tstext", cmdTsText)
}
