package main

// symwrite: binary writers created with shared tables or a fixed local symbol table (C11).

import (
	"bufio"
	"bytes"
	"encoding/json"

	"github.com/amzn/ion-go/ion"
)

type symwriteCase struct {
	Mode    string       `json:"mode"` // shared | fixed
	Imports []sharedSpec `json:"imports"`
	Locals  []Bytes      `json:"locals"`
	Forest  []Val        `json:"forest"`
	Split   int          `json:"split"` // Finish after this many values too (0 = a single batch)
	Foreign bool         `json:"foreign"` // every token with text also carries a symbol ID taken from elsewhere; the text must win
}

func cmdSymwrite(in *bufio.Scanner, out *bufio.Writer) error {
	idx := 0
	for in.Scan() {
		var c symwriteCase
		if err := json.Unmarshal(in.Bytes(), &c); err != nil {
			return err
		}
		idx++
		o := rtObs{Idx: idx, Mode: c.Mode, Out: Bytes{}, Back: []Val{}}
		var buf bytes.Buffer
		err, pan, site := safely(func() error {
			imps := make([]ion.SharedSymbolTable, len(c.Imports))
			for i, s := range c.Imports {
				imps[i] = makeShared(s)
			}
			var w ion.Writer
			if c.Mode == "shared" {
				w = ion.NewBinaryWriter(&buf, imps...)
			} else {
				w = ion.NewBinaryWriterLST(&buf, ion.NewLocalSymbolTable(imps, strs(c.Locals)))
			}
			var first error
			if c.Foreign {
				foreignSID = 11
				defer func() { foreignSID = 0 }()
			}
			for k, v := range c.Forest {
				if k == c.Split && k > 0 {
					if err := w.Finish(); err != nil && first == nil {
						first = err
					}
				}
				if err := writeValue(w, v); err != nil && first == nil {
					first = err
				}
			}
			if err := w.Finish(); err != nil && first == nil {
				first = err
			}
			return first
		})
		if pan {
			o.WPan = site + ": " + err.Error()
		}
		o.WErr = errString(err)
		o.Out = append(Bytes{}, buf.Bytes()...)
		if err := emit(out, o); err != nil {
			return err
		}
	}
	return in.Err()
}

func init() { register("symwrite", cmdSymwrite) }
