module verifharness

go 1.21

require github.com/amzn/ion-go v0.0.0

replace github.com/amzn/ion-go => /repo
