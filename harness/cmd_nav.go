package main

// nav: replay navigation programs on a real Reader, one event per call (C08).

import (
	"bufio"
	"bytes"
	"encoding/json"
	"fmt"

	"github.com/amzn/ion-go/ion"
)

type navCase struct {
	ID     string   `json:"id"`
	Doc    int      `json:"doc"`
	Bytes  Bytes    `json:"bytes"`  // the document, or
	Forest []Val    `json:"forest"` // a forest to render with the real writer named by Mode
	Mode   string   `json:"mode"`
	Prog   []string `json:"prog"`
}

type navObs struct {
	Type  string          `json:"type"`
	Null  bool            `json:"null"`
	Field Tok             `json:"field"`
	Ann   []Tok           `json:"ann"`
	Val   json.RawMessage `json:"val"`
	Ins   bool            `json:"ins"`
}

type navEvent struct {
	E      string  `json:"e"`
	ID     string  `json:"id,omitempty"`
	Doc    int     `json:"doc,omitempty"`
	Forest []Val   `json:"forest,omitempty"`
	Op     string  `json:"op,omitempty"`
	Res    string  `json:"res,omitempty"`
	Obs    *navObs `json:"obs,omitempty"`
	Msg    string  `json:"msg,omitempty"`
}

// observe reads what the Reader shows at its current position (scalars with their own accessor).
func observe(r ion.Reader) (navObs, error) {
	o := navObs{Type: "none", Field: Tok{K: "none", Text: Bytes{}, Sid: -1}, Ann: []Tok{}, Val: emptyV, Ins: r.IsInStruct()}
	t := r.Type()
	if t == ion.NoType {
		fn, _ := r.FieldName()
		o.Field = tokFromIon(fn)
		as, _ := r.Annotations()
		o.Ann = toksFromIon(as)
		return o, nil
	}
	o.Type, o.Null = typeNames[t], r.IsNull()
	fn, err := r.FieldName()
	if err != nil {
		return o, err
	}
	o.Field = tokFromIon(fn)
	as, err := r.Annotations()
	if err != nil {
		return o, err
	}
	o.Ann = toksFromIon(as)
	if o.Null || t == ion.ListType || t == ion.SexpType || t == ion.StructType {
		return o, nil
	}
	v, err := projectScalar(r)
	if err != nil {
		return o, err
	}
	o.Val = v
	return o, nil
}

// projectScalar returns the abstract body of the scalar the reader is on.
func projectScalar(r ion.Reader) (json.RawMessage, error) {
	switch r.Type() {
	case ion.NullType:
		return emptyV, nil
	case ion.BoolType:
		b, err := r.BoolValue()
		if err != nil || b == nil {
			return emptyV, orNil(err, "BoolValue")
		}
		return mustJSON(*b), nil
	case ion.IntType:
		b, err := r.BigIntValue()
		if err != nil || b == nil {
			return emptyV, orNil(err, "BigIntValue")
		}
		return mustJSON(intFromBig(b)), nil
	case ion.FloatType:
		f, err := r.FloatValue()
		if err != nil || f == nil {
			return emptyV, orNil(err, "FloatValue")
		}
		return mustJSON(floatBits(*f)), nil
	case ion.DecimalType:
		d, err := r.DecimalValue()
		if err != nil || d == nil {
			return emptyV, orNil(err, "DecimalValue")
		}
		return mustJSON(decFromIon(d)), nil
	case ion.TimestampType:
		ts, err := r.TimestampValue()
		if err != nil || ts == nil {
			return emptyV, orNil(err, "TimestampValue")
		}
		return mustJSON(tsFromIon(*ts)), nil
	case ion.SymbolType:
		st, err := r.SymbolValue()
		if err != nil || st == nil {
			return emptyV, orNil(err, "SymbolValue")
		}
		return mustJSON(tokFromIon(st)), nil
	case ion.StringType:
		s, err := r.StringValue()
		if err != nil || s == nil {
			return emptyV, orNil(err, "StringValue")
		}
		return mustJSON(Bytes(*s)), nil
	case ion.ClobType, ion.BlobType:
		bs, err := r.ByteValue()
		if err != nil {
			return emptyV, err
		}
		return mustJSON(Bytes(bs)), nil
	}
	return emptyV, fmt.Errorf("harness: not a scalar")
}

func orNil(err error, what string) error {
	if err != nil {
		return err
	}
	return fmt.Errorf("harness: %s returned nil on a non-null value", what)
}

// wrongAccessors calls every accessor that does not fit the current type; all must return an error.
func wrongAccessors(r ion.Reader) error {
	t := r.Type()
	type acc struct {
		fits bool
		call func() error
	}
	accs := []acc{
		{t == ion.BoolType, func() error { _, e := r.BoolValue(); return e }},
		{t == ion.IntType, func() error { _, e := r.IntSize(); return e }},
		{t == ion.IntType, func() error { _, e := r.IntValue(); return e }},
		{t == ion.IntType, func() error { _, e := r.Int64Value(); return e }},
		{t == ion.IntType, func() error { _, e := r.BigIntValue(); return e }},
		{t == ion.FloatType, func() error { _, e := r.FloatValue(); return e }},
		{t == ion.DecimalType, func() error { _, e := r.DecimalValue(); return e }},
		{t == ion.TimestampType, func() error { _, e := r.TimestampValue(); return e }},
		{t == ion.StringType, func() error { _, e := r.StringValue(); return e }},
		{t == ion.SymbolType, func() error { _, e := r.SymbolValue(); return e }},
		{t == ion.BlobType || t == ion.ClobType, func() error { _, e := r.ByteValue(); return e }},
	}
	accepted := 0
	for _, a := range accs {
		if a.fits {
			continue
		}
		if a.call() == nil {
			accepted++
		}
	}
	if accepted > 0 {
		return nil // some wrong accessor did not refuse
	}
	return fmt.Errorf("refused")
}

// accessorSnapshot calls every value accessor (forward or in reverse order) and renders the results.
func accessorSnapshot(r ion.Reader, reverse bool) string {
	calls := []func() string{
		func() string { return fmt.Sprint(r.Type(), r.IsNull(), r.IsInStruct()) },
		func() string { v, e := r.IntSize(); return fmt.Sprint(v, e) },
		func() string { v, e := r.BoolValue(); return fmt.Sprint(v == nil, e) + derefB(v) },
		func() string { v, e := r.IntValue(); return fmt.Sprint(v == nil, e) + derefI(v) },
		func() string { v, e := r.Int64Value(); return fmt.Sprint(v == nil, e) + derefI64(v) },
		func() string { v, e := r.BigIntValue(); return fmt.Sprint(v, e) },
		func() string { v, e := r.FloatValue(); return fmt.Sprint(v == nil, e) + derefF(v) },
		func() string { v, e := r.DecimalValue(); return fmt.Sprint(v, e) },
		func() string { v, e := r.TimestampValue(); return fmt.Sprint(v, e) },
		func() string { v, e := r.StringValue(); return fmt.Sprint(v == nil, e) + derefS(v) },
		func() string { v, e := r.SymbolValue(); return fmt.Sprint(v, e) },
		func() string { v, e := r.ByteValue(); return fmt.Sprint(v, e) },
		func() string { v, e := r.FieldName(); return fmt.Sprint(v, e) },
		func() string { v, e := r.Annotations(); return fmt.Sprint(v, e) },
	}
	out := make([]string, len(calls))
	for k := range calls {
		i := k
		if reverse {
			i = len(calls) - 1 - k
		}
		out[i] = calls[i]()
	}
	return fmt.Sprint(out)
}

func derefB(v *bool) string {
	if v == nil {
		return ""
	}
	return fmt.Sprint(*v)
}
func derefI(v *int) string {
	if v == nil {
		return ""
	}
	return fmt.Sprint(*v)
}
func derefI64(v *int64) string {
	if v == nil {
		return ""
	}
	return fmt.Sprint(*v)
}
func derefF(v *float64) string {
	if v == nil {
		return ""
	}
	return fmt.Sprintf("%x", *v)
}
func derefS(v *string) string {
	if v == nil {
		return ""
	}
	return *v
}

func navDocument(c navCase) ([]byte, error) {
	if c.Mode == "" || c.Mode == "bytes" {
		return []byte(c.Bytes), nil
	}
	var buf bytes.Buffer
	w := newWriter(c.Mode, &buf, nil)
	for _, v := range c.Forest {
		if err := writeValue(w, v); err != nil {
			return nil, err
		}
	}
	if err := w.Finish(); err != nil {
		return nil, err
	}
	return buf.Bytes(), nil
}

func cmdNav(in *bufio.Scanner, out *bufio.Writer) error {
	for in.Scan() {
		var c navCase
		if err := json.Unmarshal(in.Bytes(), &c); err != nil {
			return err
		}
		doc, err := navDocument(c)
		if err != nil {
			return fmt.Errorf("cannot render document of case %s: %v", c.ID, err)
		}
		if err := emit(out, navEvent{E: "reset", ID: c.ID, Doc: c.Doc, Forest: c.Forest}); err != nil {
			return err
		}
		r := ion.NewReaderBytes(doc)
		for _, op := range c.Prog {
			ev := navEvent{E: "call", Op: op}
			var obs navObs
			impure := ""
			err, pan, site := safely(func() error {
				switch op {
				case "Next":
					if r.Next() {
						ev.Res = "true"
					} else {
						ev.Res = "false"
						if r.Err() != nil {
							ev.Res = "error"
							ev.Msg = r.Err().Error()
						}
					}
				case "StepIn":
					if e := r.StepIn(); e != nil {
						ev.Res, ev.Msg = "err", e.Error()
					} else {
						ev.Res = "ok"
					}
				case "StepOut":
					if e := r.StepOut(); e != nil {
						ev.Res, ev.Msg = "err", e.Error()
					} else {
						ev.Res = "ok"
					}
				case "WrongAcc":
					if e := wrongAccessors(r); e != nil {
						ev.Res = "err"
					} else {
						ev.Res = "ok"
					}
				}
				var e error
				// accessors are pure: what one returns does not depend on which others were called before it
				a := accessorSnapshot(r, false)
				obs, e = observe(r)
				if e == nil {
					b := accessorSnapshot(r, true)
					obs2, e2 := observe(r)
					j1, _ := json.Marshal(obs)
					j2, _ := json.Marshal(obs2)
					if a != b || e2 != nil || string(j1) != string(j2) {
						impure = fmt.Sprintf("accessor results depend on the order of calls: %s / %s", a, b)
					}
				}
				return e
			})
			if impure != "" && !pan && err == nil {
				ev.Res, ev.Msg = "impure", impure
			}
			if pan {
				ev.Res, ev.Msg = "panic", site+": "+err.Error()
			} else if err != nil {
				ev.Res, ev.Msg = "obs-error", err.Error()
			}
			ev.Obs = &obs
			if ev.Obs.Ann == nil {
				ev.Obs = &navObs{Type: "none", Field: Tok{K: "none", Text: Bytes{}, Sid: -1}, Ann: []Tok{}, Val: emptyV}
			}
			if err := emit(out, ev); err != nil {
				return err
			}
			if pan {
				break
			}
		}
	}
	return in.Err()
}

func init() { register("nav", cmdNav) }
