package main

// symtab: build symbol tables from abstract configurations and record every query (C09).

import (
	"bufio"
	"bytes"
	"encoding/json"
	"fmt"

	"github.com/amzn/ion-go/ion"
)

type sharedSpec struct {
	Name    Bytes   `json:"name"`
	Version int     `json:"version"`
	Syms    []Bytes `json:"syms"`
	Adj     int     `json:"adj"`
}

type symtabCase struct {
	Imports []sharedSpec `json:"imports"`
	Locals  []Bytes      `json:"locals"`
	Adds    []Bytes      `json:"adds"`
}

type byIDObs struct {
	Found bool  `json:"found"`
	Text  Bytes `json:"text"`
}
type byNameObs struct {
	Found bool  `json:"found"`
	ID    int64 `json:"id"`
	Find  bool  `json:"find"`
	Tok   int64 `json:"tok"`
}
type bySidObs struct {
	Err     bool  `json:"err"`
	HasText bool  `json:"hastext"`
	Text    Bytes `json:"text"`
}
type impObs struct {
	Name    Bytes `json:"name"`
	Version int   `json:"version"`
	MaxID   int64 `json:"maxid"`
}
type tableObs struct {
	MaxID   int64       `json:"maxid"`
	ByID    []byIDObs   `json:"byid"`
	ByName  []byNameObs `json:"byname"`
	BySid   []bySidObs  `json:"bysid"`
	Symbols []Bytes     `json:"symbols"`
	Imports []impObs    `json:"imports"`
}
type addObs struct {
	ID    int64 `json:"id"`
	Added bool  `json:"added"`
	MaxID int64 `json:"maxid"`
}
type symtabObs struct {
	Idx     int      `json:"idx"`
	Panic   string   `json:"panic"`
	Local   tableObs `json:"local"`
	Adds    []addObs `json:"adds"`
	Built   tableObs `json:"built"`
	Builder tableObs `json:"builder"`
	Snaps   []tableObs `json:"snaps"` // tables built after 0, 1, ... Adds, all queried after the last Add
	// the local table written out and read back by a Reader whose catalog holds the (unadjusted) imports:
	// "" judged, "skip" (two imports share name and version), else the error
	RT         string   `json:"rt"`
	ViaString  tableObs `json:"viastring"`
	ViaWriteTo tableObs `json:"viawriteto"`
	ViaBinary  tableObs `json:"viabinary"`
	ViaBogus    tableObs `json:"viabogus"`
	ViaBogusBin tableObs `json:"viabogusbin"`
}

// rereadTable reads doc (a serialised table followed by one value) and returns the table in force at the value.
func rereadTable(doc []byte, cat ion.Catalog) (tableObs, error) {
	r := ion.NewReaderCat(bytes.NewReader(doc), cat)
	if !r.Next() {
		return tableObs{}, fmt.Errorf("no value after the table: %v", r.Err())
	}
	return observeTable(r.SymbolTable()), nil
}

func tableRoundTrip(c symtabCase, lt ion.SymbolTable, o *symtabObs) {
	seen := map[string]int{}
	var base []ion.SharedSymbolTable
	for i, s := range c.Imports {
		key := fmt.Sprintf("%s/%d", s.Name, s.Version)
		if j, dup := seen[key]; dup {
			if fmt.Sprint(c.Imports[j].Syms) != fmt.Sprint(s.Syms) {
				o.RT = "skip"
				return
			}
			continue
		}
		seen[key] = i
		base = append(base, ion.NewSharedSymbolTable(string(s.Name), s.Version, strs(s.Syms)))
	}
	cat := ion.NewCatalog(base...)
	var err error
	if o.ViaString, err = rereadTable([]byte(lt.String()+"\n0"), cat); err != nil {
		o.RT = "String(): " + err.Error()
		return
	}
	var tb bytes.Buffer
	tw := ion.NewTextWriter(&tb)
	if err = lt.WriteTo(tw); err == nil {
		if err = tw.WriteInt(0); err == nil {
			err = tw.Finish()
		}
	}
	if err == nil {
		o.ViaWriteTo, err = rereadTable(tb.Bytes(), cat)
	}
	if err != nil {
		o.RT = "WriteTo(text writer): " + err.Error()
		return
	}
	var bb bytes.Buffer
	bw := ion.NewBinaryWriterLST(&bb, lt)
	if err = bw.WriteInt(0); err == nil {
		err = bw.Finish()
	}
	if err == nil {
		o.ViaBinary, err = rereadTable(bb.Bytes(), cat)
	}
	if err != nil {
		o.RT = "binary writer with this table: " + err.Error()
		return
	}
	// the same table as a Reader WITHOUT the imports in its catalog holds it (every import a placeholder of max_id
	// slots), written out again and read back: the placeholders keep their slots
	empty := ion.NewCatalog()
	r := ion.NewReaderCat(bytes.NewReader([]byte(lt.String()+"\n0")), empty)
	if !r.Next() {
		o.RT = fmt.Sprintf("String() read without the imports: %v", r.Err())
		return
	}
	held := r.SymbolTable()
	if o.ViaBogus, err = rereadTable([]byte(held.String()+"\n0"), empty); err != nil {
		o.RT = "String() of a table with missing imports: " + err.Error()
		return
	}
	var b2 bytes.Buffer
	bw2 := ion.NewBinaryWriterLST(&b2, held)
	if err = bw2.WriteInt(0); err == nil {
		err = bw2.Finish()
	}
	if err == nil {
		o.ViaBogusBin, err = rereadTable(b2.Bytes(), empty)
	}
	if err != nil {
		o.RT = "binary writer with a table with missing imports: " + err.Error()
	}
}

var queryTexts = []string{"a", "b", "name", "c", "$ion", "z"}

func strs(bs []Bytes) []string {
	out := make([]string, len(bs))
	for i, b := range bs {
		out[i] = string(b)
	}
	return out
}

func makeShared(s sharedSpec) ion.SharedSymbolTable {
	t := ion.NewSharedSymbolTable(string(s.Name), s.Version, strs(s.Syms))
	if s.Adj >= 0 {
		t = t.Adjust(uint64(s.Adj))
	}
	return t
}

func observeTable(t ion.SymbolTable) tableObs {
	o := tableObs{MaxID: int64(t.MaxID()), ByID: []byIDObs{}, ByName: []byNameObs{}, BySid: []bySidObs{}, Symbols: []Bytes{}, Imports: []impObs{}}
	for id := uint64(0); id <= t.MaxID()+1; id++ {
		text, ok := t.FindByID(id)
		o.ByID = append(o.ByID, byIDObs{Found: ok, Text: Bytes(text)})
		tok, err := ion.NewSymbolTokenBySID(t, int64(id))
		b := bySidObs{Err: err != nil, Text: Bytes{}}
		if err == nil && tok.Text != nil {
			b.HasText, b.Text = true, Bytes(*tok.Text)
		}
		o.BySid = append(o.BySid, b)
	}
	for _, q := range queryTexts {
		id, ok := t.FindByName(q)
		n := byNameObs{Found: ok, ID: int64(id), Find: t.Find(q) != nil, Tok: -1}
		if tok, err := ion.NewSymbolToken(t, q); err == nil {
			n.Tok = tok.LocalSID
		}
		o.ByName = append(o.ByName, n)
	}
	for _, s := range t.Symbols() {
		o.Symbols = append(o.Symbols, Bytes(s))
	}
	for _, imp := range t.Imports() {
		o.Imports = append(o.Imports, impObs{Name: Bytes(imp.Name()), Version: imp.Version(), MaxID: int64(imp.MaxID())})
	}
	return o
}

func cmdSymtab(in *bufio.Scanner, out *bufio.Writer) error {
	idx := 0
	for in.Scan() {
		var c symtabCase
		if err := json.Unmarshal(in.Bytes(), &c); err != nil {
			return err
		}
		idx++
		o := symtabObs{Idx: idx, Adds: []addObs{}, Snaps: []tableObs{}}
		empty := tableObs{ByID: []byIDObs{}, ByName: []byNameObs{}, BySid: []bySidObs{}, Symbols: []Bytes{}, Imports: []impObs{}}
		o.ViaString, o.ViaWriteTo, o.ViaBinary, o.ViaBogus, o.ViaBogusBin = empty, empty, empty, empty, empty
		err, pan, site := safely(func() error {
			imps := make([]ion.SharedSymbolTable, len(c.Imports))
			for i, s := range c.Imports {
				imps[i] = makeShared(s)
			}
			lt := ion.NewLocalSymbolTable(imps, strs(c.Locals))
			o.Local = observeTable(lt)
			tableRoundTrip(c, lt, &o)
			b := ion.NewSymbolTableBuilder(imps...)
			// a table is built after every prefix of the Add sequence and queried only at the end: a built table is a
			// snapshot that later Adds must not change
			snaps := []ion.SymbolTable{b.Build()}
			for _, a := range c.Adds {
				id, added := b.Add(string(a))
				o.Adds = append(o.Adds, addObs{ID: int64(id), Added: added, MaxID: int64(b.MaxID())})
				snaps = append(snaps, b.Build())
			}
			for _, t := range snaps {
				o.Snaps = append(o.Snaps, observeTable(t))
			}
			o.Built = observeTable(b.Build())
			o.Builder = observeTable(b)
			return nil
		})
		if pan {
			o.Panic = site + ": " + err.Error()
		}
		if err := emit(out, o); err != nil {
			return err
		}
	}
	return in.Err()
}

func init() { register("symtab", cmdSymtab) }
