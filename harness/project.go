package main

// Projection: real ion.Reader -> abstract forest (plain full traversal with every accessor).

import (
	"fmt"

	"github.com/amzn/ion-go/ion"
)

// projectCurrent projects the value the reader is positioned on (stepping through containers).
func projectCurrent(r ion.Reader, depth int) (Val, error) {
	t := r.Type()
	name, ok := typeNames[t]
	if !ok {
		return Val{}, fmt.Errorf("harness: reader positioned on no value (type %v)", t)
	}
	as, err := r.Annotations()
	if err != nil {
		return Val{}, err
	}
	v := Val{T: name, Null: r.IsNull(), Ann: toksFromIon(as), V: emptyV}
	if v.Null {
		return v, nil
	}
	switch t {
	case ion.NullType:
	case ion.BoolType:
		b, err := r.BoolValue()
		if err != nil {
			return v, err
		}
		if b == nil {
			return v, fmt.Errorf("harness: BoolValue nil on non-null")
		}
		v.V = mustJSON(*b)
	case ion.IntType:
		b, err := r.BigIntValue()
		if err != nil {
			return v, err
		}
		if b == nil {
			return v, fmt.Errorf("harness: BigIntValue nil on non-null")
		}
		v.V = mustJSON(intFromBig(b))
	case ion.FloatType:
		f, err := r.FloatValue()
		if err != nil {
			return v, err
		}
		if f == nil {
			return v, fmt.Errorf("harness: FloatValue nil on non-null")
		}
		v.V = mustJSON(floatBits(*f))
	case ion.DecimalType:
		d, err := r.DecimalValue()
		if err != nil {
			return v, err
		}
		if d == nil {
			return v, fmt.Errorf("harness: DecimalValue nil on non-null")
		}
		v.V = mustJSON(decFromIon(d))
	case ion.TimestampType:
		ts, err := r.TimestampValue()
		if err != nil {
			return v, err
		}
		if ts == nil {
			return v, fmt.Errorf("harness: TimestampValue nil on non-null")
		}
		v.V = mustJSON(tsFromIon(*ts))
	case ion.SymbolType:
		st, err := r.SymbolValue()
		if err != nil {
			return v, err
		}
		if st == nil {
			return v, fmt.Errorf("harness: SymbolValue nil on non-null")
		}
		v.V = mustJSON(tokFromIon(st))
	case ion.StringType:
		s, err := r.StringValue()
		if err != nil {
			return v, err
		}
		if s == nil {
			return v, fmt.Errorf("harness: StringValue nil on non-null")
		}
		v.V = mustJSON(Bytes(*s))
	case ion.ClobType, ion.BlobType:
		bs, err := r.ByteValue()
		if err != nil {
			return v, err
		}
		v.V = mustJSON(Bytes(bs))
	case ion.ListType, ion.SexpType:
		if err := r.StepIn(); err != nil {
			return v, err
		}
		kids := []Val{}
		for r.Next() {
			k, err := projectCurrent(r, depth+1)
			if err != nil {
				return v, err
			}
			kids = append(kids, k)
		}
		if err := r.Err(); err != nil {
			return v, err
		}
		if err := r.StepOut(); err != nil {
			return v, err
		}
		v.V = mustJSON(kids)
	case ion.StructType:
		if err := r.StepIn(); err != nil {
			return v, err
		}
		fs := []Field{}
		for r.Next() {
			fn, err := r.FieldName()
			if err != nil {
				return v, err
			}
			k, err := projectCurrent(r, depth+1)
			if err != nil {
				return v, err
			}
			fs = append(fs, Field{Name: tokFromIon(fn), Val: k})
		}
		if err := r.Err(); err != nil {
			return v, err
		}
		if err := r.StepOut(); err != nil {
			return v, err
		}
		v.V = mustJSON(fs)
	}
	return v, nil
}

// projectAll reads every top-level value. It returns what was read before any error.
func projectAll(r ion.Reader) ([]Val, error) {
	out := []Val{}
	for r.Next() {
		v, err := projectCurrent(r, 0)
		if err != nil {
			return out, err
		}
		out = append(out, v)
	}
	return out, r.Err()
}
