package main

// Abstract Go values for the reflection mapping (C16, C17): a self-describing tree produced by a
// reflect walker (kinds, widths, nil-ness, struct tags as written), so that spec/Marshal.tla can
// compute the Ion value a Go value must marshal to without knowing the Go types.

import (
	"math"
	"math/big"
	"math/rand"
	"reflect"
	"sort"
	"strings"
	"time"

	"github.com/amzn/ion-go/ion"
)

type GVField struct {
	Go       Bytes  `json:"go"`
	Name     Bytes  `json:"name"` // name part of the ion tag (empty = none)
	Omit     bool   `json:"omit"`
	Hint     string `json:"hint"` // "" | symbol | clob | sexp
	Ann      bool   `json:"ann"`
	Embedded bool   `json:"embedded"`
	Skip     bool   `json:"skip"` // unexported or tagged "-"
	Val      GV     `json:"val"`
}

type GVEntry struct {
	Key Bytes `json:"key"`
	Val GV    `json:"val"`
}

type GV struct {
	K       string    `json:"k"`
	Bits    int       `json:"bits"`
	Nil     bool      `json:"nil"`
	B       bool      `json:"b"`
	I       IntV      `json:"i"`
	F       Bytes     `json:"f"`
	S       Bytes     `json:"s"`
	Elems   []GV      `json:"elems"`
	Entries []GVEntry `json:"entries"`
	Fields  []GVField `json:"fields"`
	Ts      TsV       `json:"ts"`
	Dec     DecV      `json:"dec"`
	Toks    []Tok     `json:"toks"`
}

func newGV(k string) GV {
	return GV{K: k, I: IntV{Mag: Bytes{}}, F: Bytes{}, S: Bytes{}, Elems: []GV{}, Entries: []GVEntry{}, Fields: []GVField{},
		Ts: TsV{Frac: Bytes{}}, Dec: DecV{Coef: Bytes{}}, Toks: []Tok{}}
}

var (
	tTimestamp   = reflect.TypeOf(ion.Timestamp{})
	tDecimal     = reflect.TypeOf(ion.Decimal{})
	tTime        = reflect.TypeOf(time.Time{})
	tBigInt      = reflect.TypeOf(big.Int{})
	tSymbolToken = reflect.TypeOf(ion.SymbolToken{})
)

func bitsOf(k reflect.Kind) int {
	switch k {
	case reflect.Int8, reflect.Uint8:
		return 8
	case reflect.Int16, reflect.Uint16:
		return 16
	case reflect.Int32, reflect.Uint32, reflect.Float32:
		return 32
	case reflect.Int64, reflect.Uint64, reflect.Float64:
		return 64
	}
	return 0 // int, uint, uintptr
}

// walk projects a Go value to its abstract form.
func walk(v reflect.Value) GV {
	if !v.IsValid() {
		g := newGV("iface")
		g.Nil = true
		return g
	}
	t := v.Type()
	switch t {
	case tTimestamp:
		g := newGV("timestamp")
		g.Ts = tsFromIon(v.Interface().(ion.Timestamp))
		return g
	case tDecimal:
		g := newGV("decimal")
		d := v.Interface().(ion.Decimal)
		if c, _ := d.CoEx(); c == nil {
			return newGV("invalid-decimal") // a Decimal whose coefficient is nil (unusable)
		}
		g.Dec = decFromIon(&d)
		return g
	case tTime:
		g := newGV("time")
		tm := v.Interface().(time.Time)
		name, off := tm.Zone()
		u := tm.UTC()
		ns := u.Nanosecond()
		frac := make(Bytes, 9)
		for i := 8; i >= 0; i-- {
			frac[i] = byte(ns % 10)
			ns /= 10
		}
		g.Ts = TsV{Y: u.Year(), Mo: int(u.Month()), D: u.Day(), H: u.Hour(), Mi: u.Minute(), S: u.Second(), Frac: frac,
			Off: off / 60, Known: name != "", Prec: 6}
		return g
	case tBigInt:
		g := newGV("bigint")
		b := v.Interface().(big.Int)
		g.I = intFromBig(&b)
		return g
	}
	switch t.Kind() {
	case reflect.Bool:
		g := newGV("bool")
		g.B = v.Bool()
		return g
	case reflect.Int, reflect.Int8, reflect.Int16, reflect.Int32, reflect.Int64:
		g := newGV("int")
		g.Bits = bitsOf(t.Kind())
		g.I = intFromBig(big.NewInt(v.Int()))
		return g
	case reflect.Uint, reflect.Uint8, reflect.Uint16, reflect.Uint32, reflect.Uint64, reflect.Uintptr:
		g := newGV("uint")
		g.Bits = bitsOf(t.Kind())
		g.I = intFromBig(new(big.Int).SetUint64(v.Uint()))
		return g
	case reflect.Float32, reflect.Float64:
		g := newGV("float")
		g.Bits = bitsOf(t.Kind())
		g.F = floatBits(v.Float())
		return g
	case reflect.String:
		g := newGV("string")
		g.S = Bytes(v.String())
		return g
	case reflect.Slice:
		if t.Elem().Kind() == reflect.Uint8 {
			g := newGV("bytes")
			g.Nil = v.IsNil()
			if !g.Nil {
				g.S = append(Bytes{}, v.Bytes()...)
			}
			return g
		}
		if t.Elem() == tSymbolToken {
			g := newGV("tokens")
			g.Nil = v.IsNil()
			for i := 0; i < v.Len(); i++ {
				st := v.Index(i).Interface().(ion.SymbolToken)
				g.Toks = append(g.Toks, tokFromIon(&st))
			}
			return g
		}
		g := newGV("slice")
		g.Nil = v.IsNil()
		for i := 0; i < v.Len(); i++ {
			g.Elems = append(g.Elems, walk(v.Index(i)))
		}
		return g
	case reflect.Array:
		g := newGV("array")
		for i := 0; i < v.Len(); i++ {
			g.Elems = append(g.Elems, walk(v.Index(i)))
		}
		return g
	case reflect.Map:
		g := newGV("map")
		g.Nil = v.IsNil()
		keys := v.MapKeys()
		sort.Slice(keys, func(i, j int) bool { return keys[i].String() < keys[j].String() })
		for _, k := range keys {
			g.Entries = append(g.Entries, GVEntry{Key: Bytes(k.String()), Val: walk(v.MapIndex(k))})
		}
		return g
	case reflect.Ptr:
		g := newGV("ptr")
		g.Nil = v.IsNil()
		if !g.Nil {
			g.Elems = append(g.Elems, walk(v.Elem()))
		}
		return g
	case reflect.Interface:
		g := newGV("iface")
		g.Nil = v.IsNil()
		if !g.Nil {
			g.Elems = append(g.Elems, walk(v.Elem()))
		}
		return g
	case reflect.Struct:
		g := newGV("struct")
		for i := 0; i < t.NumField(); i++ {
			sf := t.Field(i)
			f := GVField{Go: Bytes(sf.Name), Name: Bytes{}, Embedded: sf.Anonymous, Val: newGV("none")}
			tag := sf.Tag.Get("ion")
			ft := sf.Type
			if ft.Kind() == reflect.Ptr {
				ft = ft.Elem()
			}
			embeddedStruct := sf.Anonymous && ft.Kind() == reflect.Struct
			if tag == "-" || (sf.PkgPath != "" && !embeddedStruct) {
				f.Skip = true
				g.Fields = append(g.Fields, f)
				continue
			}
			parts := strings.Split(tag, ",")
			f.Name = Bytes(parts[0])
			for _, o := range parts[1:] {
				switch o {
				case "omitempty":
					f.Omit = true
				case "symbol", "clob", "sexp":
					f.Hint = o
				case "annotations":
					f.Ann = true
				}
			}
			f.Val = walk(v.Field(i))
			g.Fields = append(g.Fields, f)
		}
		return g
	}
	return newGV("unsupported:" + t.Kind().String())
}

// ---- seeded values for any Go type ----

var sampleStrings = []string{"", "a", "hello world", "null", "tr\"ue", "é€😀", "line\nbreak", "x y", "'q'", "semi;colon"}
var sampleSymbols = []string{"a", "abc", "name", "hello world", "null", "é", "x+y", "A_9"}

func randInt(r *rand.Rand, bits int) int64 {
	if bits == 0 {
		bits = 64
	}
	max := int64(1)<<(uint(bits)-1) - 1
	min := -max - 1
	switch r.Intn(8) {
	case 0:
		return 0
	case 1:
		return max
	case 2:
		return min
	case 3:
		return -1
	case 4:
		return 1
	case 5:
		return max - int64(r.Intn(3))
	default:
		x := r.Int63()
		if bits < 64 {
			x %= max + 1
		}
		if r.Intn(2) == 0 {
			x = -x
		}
		return x
	}
}

func randUint(r *rand.Rand, bits int) uint64 {
	if bits == 0 {
		bits = 64
	}
	max := uint64(math.MaxUint64)
	if bits < 64 {
		max = uint64(1)<<uint(bits) - 1
	}
	switch r.Intn(6) {
	case 0:
		return 0
	case 1:
		return max
	case 2:
		return max - 1
	case 3:
		return 1
	default:
		if bits == 64 {
			return r.Uint64()
		}
		return r.Uint64() % (max + 1)
	}
}

var sampleFloats = []float64{0, math.Copysign(0, -1), 1, -1.5, 0.1, math.MaxFloat32, math.SmallestNonzeroFloat32, 1e100, -1e-100, math.MaxFloat64,
	math.SmallestNonzeroFloat64, math.Inf(1), math.Inf(-1), math.NaN(), 123456789, 3.141592653589793}

func randFloat(r *rand.Rand, bits int) float64 {
	f := sampleFloats[r.Intn(len(sampleFloats))]
	if r.Intn(3) == 0 {
		f = (r.Float64() - 0.5) * math.Pow(10, float64(r.Intn(40)-20))
	}
	if bits == 32 {
		return float64(float32(f))
	}
	return f
}

func randTimestamp(r *rand.Rand) ion.Timestamp {
	ns := []int{0, 1, 120000000, 999999999, 500}[r.Intn(5)]
	tm := time.Date(1+r.Intn(9998), time.Month(1+r.Intn(12)), 1+r.Intn(28), r.Intn(24), r.Intn(60), r.Intn(60), ns, time.UTC)
	prec := ion.TimestampPrecision(1 + r.Intn(6))
	// a timestamp holds nothing below its precision
	switch prec {
	case ion.TimestampPrecisionYear:
		tm = time.Date(tm.Year(), 1, 1, 0, 0, 0, 0, time.UTC)
	case ion.TimestampPrecisionMonth:
		tm = time.Date(tm.Year(), tm.Month(), 1, 0, 0, 0, 0, time.UTC)
	case ion.TimestampPrecisionDay:
		tm = time.Date(tm.Year(), tm.Month(), tm.Day(), 0, 0, 0, 0, time.UTC)
	case ion.TimestampPrecisionMinute:
		tm = time.Date(tm.Year(), tm.Month(), tm.Day(), tm.Hour(), tm.Minute(), 0, 0, time.UTC)
	case ion.TimestampPrecisionSecond:
		tm = time.Date(tm.Year(), tm.Month(), tm.Day(), tm.Hour(), tm.Minute(), tm.Second(), 0, time.UTC)
	}
	if prec <= ion.TimestampPrecisionDay {
		return ion.NewDateTimestamp(tm, prec)
	}
	kind := []ion.TimezoneKind{ion.TimezoneUnspecified, ion.TimezoneUTC, ion.TimezoneLocal}[r.Intn(3)]
	if kind == ion.TimezoneLocal {
		off := []int{60, -300, 330, 1, -1}[r.Intn(5)]
		if tm.Year() > 2 && tm.Year() < 9998 {
			tm = tm.In(time.FixedZone("", off*60))
		} else {
			kind = ion.TimezoneUTC
		}
	}
	if prec == ion.TimestampPrecisionNanosecond {
		return ion.NewTimestampWithFractionalSeconds(tm, prec, kind, uint8(1+r.Intn(9)))
	}
	return ion.NewTimestamp(time.Date(tm.Year(), tm.Month(), tm.Day(), tm.Hour(), tm.Minute(), tm.Second(), 0, tm.Location()), prec, kind)
}

// randValue fills v (settable) with a seeded value of its type; depth bounds recursion.
func randValue(r *rand.Rand, v reflect.Value, depth int, hint string) {
	t := v.Type()
	switch t {
	case tTimestamp:
		v.Set(reflect.ValueOf(randTimestamp(r)))
		return
	case tDecimal:
		coef := big.NewInt(randInt(r, 40))
		d := ion.NewDecimal(coef, int32(r.Intn(21)-10), coef.Sign() == 0 && r.Intn(3) == 0)
		v.Set(reflect.ValueOf(*d))
		return
	case tTime:
		zones := []*time.Location{time.UTC, time.FixedZone("plus", 3600), time.FixedZone("minus", -5*3600), time.FixedZone("", 0)}
		v.Set(reflect.ValueOf(time.Date(1970+r.Intn(100), time.Month(1+r.Intn(12)), 1+r.Intn(28), r.Intn(24), r.Intn(60), r.Intn(60),
			[]int{0, 1, 770000000, 999999999}[r.Intn(4)], zones[r.Intn(len(zones))])))
		return
	case tBigInt:
		b := new(big.Int).Lsh(big.NewInt(randInt(r, 64)), uint(r.Intn(3)*40))
		v.Set(reflect.ValueOf(*b))
		return
	}
	switch t.Kind() {
	case reflect.Bool:
		v.SetBool(r.Intn(2) == 0)
	case reflect.Int, reflect.Int8, reflect.Int16, reflect.Int32, reflect.Int64:
		v.SetInt(randInt(r, bitsOf(t.Kind())))
	case reflect.Uint, reflect.Uint8, reflect.Uint16, reflect.Uint32, reflect.Uint64, reflect.Uintptr:
		v.SetUint(randUint(r, bitsOf(t.Kind())))
	case reflect.Float32, reflect.Float64:
		v.SetFloat(randFloat(r, bitsOf(t.Kind())))
	case reflect.String:
		if hint == "symbol" {
			v.SetString(sampleSymbols[r.Intn(len(sampleSymbols))])
		} else {
			v.SetString(sampleStrings[r.Intn(len(sampleStrings))])
		}
	case reflect.Slice:
		if t.Elem() == tSymbolToken {
			n := r.Intn(3)
			toks := make([]ion.SymbolToken, n)
			for i := range toks {
				toks[i] = ion.NewSymbolTokenFromString(sampleSymbols[r.Intn(len(sampleSymbols))])
			}
			v.Set(reflect.ValueOf(toks))
			return
		}
		k := r.Intn(5)
		if k == 0 {
			v.Set(reflect.Zero(t)) // nil
			return
		}
		n := k - 1
		if depth > 3 && n > 1 {
			n = 1
		}
		s := reflect.MakeSlice(t, n, n)
		for i := 0; i < n; i++ {
			randValue(r, s.Index(i), depth+1, hint)
		}
		v.Set(s)
	case reflect.Array:
		for i := 0; i < v.Len(); i++ {
			randValue(r, v.Index(i), depth+1, hint)
		}
	case reflect.Map:
		k := r.Intn(4)
		if k == 0 {
			v.Set(reflect.Zero(t))
			return
		}
		m := reflect.MakeMap(t)
		for i := 0; i < k-1; i++ {
			e := reflect.New(t.Elem()).Elem()
			randValue(r, e, depth+1, hint)
			m.SetMapIndex(reflect.ValueOf(sampleSymbols[r.Intn(len(sampleSymbols))]).Convert(t.Key()), e)
		}
		v.Set(m)
	case reflect.Ptr:
		if r.Intn(3) == 0 || depth > 4 {
			v.Set(reflect.Zero(t))
			return
		}
		p := reflect.New(t.Elem())
		randValue(r, p.Elem(), depth+1, hint)
		v.Set(p)
	case reflect.Interface:
		// dynamic values of the types Unmarshal produces for interface{} targets
		switch r.Intn(7) {
		case 0:
			v.Set(reflect.Zero(t))
		case 1:
			v.Set(reflect.ValueOf(r.Intn(2) == 0))
		case 2:
			v.Set(reflect.ValueOf(int(randInt(r, 32))))
		case 3:
			v.Set(reflect.ValueOf(randFloat(r, 64)))
		case 4:
			v.Set(reflect.ValueOf(sampleStrings[r.Intn(len(sampleStrings))]))
		case 5:
			v.Set(reflect.ValueOf([]interface{}{int(randInt(r, 16)), "s"}))
		default:
			v.Set(reflect.ValueOf(map[string]interface{}{"k": int(randInt(r, 16))}))
		}
	case reflect.Struct:
		for i := 0; i < t.NumField(); i++ {
			sf := t.Field(i)
			if sf.PkgPath != "" && !sf.Anonymous {
				continue
			}
			if !v.Field(i).CanSet() {
				continue
			}
			h := ""
			for _, o := range strings.Split(sf.Tag.Get("ion"), ",")[1:] {
				if o == "symbol" || o == "clob" || o == "sexp" {
					h = o
				}
			}
			randValue(r, v.Field(i), depth+1, h)
		}
	}
}
