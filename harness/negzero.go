package main

import "github.com/amzn/ion-go/ion"

func decimalIsNegZero(d *ion.Decimal) bool { return d.VerifNegZero() }
