package main

// Abstract Ion values exchanged with the TLA+ specification (see spec/IonData.tla).
// Drivers and projections are straight-line code with no Ion logic of their own.

import (
	"encoding/json"
	"fmt"
	"math"
	"math/big"
	"time"

	"github.com/amzn/ion-go/ion"
)

// Bytes marshals as a JSON array of small integers (TLC has no byte strings).
type Bytes []byte

func (b Bytes) MarshalJSON() ([]byte, error) {
	out := make([]byte, 0, 2+4*len(b))
	out = append(out, '[')
	for i, x := range b {
		if i > 0 {
			out = append(out, ',')
		}
		out = appendInt(out, int(x))
	}
	out = append(out, ']')
	return out, nil
}

func appendInt(out []byte, x int) []byte {
	return append(out, fmt.Sprintf("%d", x)...)
}

func (b *Bytes) UnmarshalJSON(data []byte) error {
	var xs []int
	if err := json.Unmarshal(data, &xs); err != nil {
		return err
	}
	r := make([]byte, len(xs))
	for i, x := range xs {
		if x < 0 || x > 255 {
			return fmt.Errorf("byte out of range: %d", x)
		}
		r[i] = byte(x)
	}
	*b = r
	return nil
}

type Tok struct {
	K    string `json:"k"` // "text" | "sid" | "bad" | "none"
	Text Bytes  `json:"text"`
	Sid  int64  `json:"sid"`
}

type IntV struct {
	Neg bool  `json:"neg"`
	Mag Bytes `json:"mag"`
}

type DecV struct {
	Neg  bool  `json:"neg"`
	Coef Bytes `json:"coef"`
	Exp  int64 `json:"exp"`
}

type TsV struct {
	Y     int   `json:"y"`
	Mo    int   `json:"mo"`
	D     int   `json:"d"`
	H     int   `json:"h"`
	Mi    int   `json:"mi"`
	S     int   `json:"s"`
	Frac  Bytes `json:"frac"` // decimal digits 0..9
	Off   int   `json:"off"`
	Known bool  `json:"known"`
	Prec  int   `json:"prec"`
}

type Field struct {
	Name Tok `json:"name"`
	Val  Val `json:"val"`
}

// Val is [t, null, ann, v]; V is decoded lazily according to T.
type Val struct {
	T    string          `json:"t"`
	Null bool            `json:"null"`
	Ann  []Tok           `json:"ann"`
	V    json.RawMessage `json:"v"`
}

func mustJSON(x interface{}) json.RawMessage {
	b, err := json.Marshal(x)
	if err != nil {
		panic(err)
	}
	return b
}

var emptyV = json.RawMessage("[]")

func tokFromIon(st *ion.SymbolToken) Tok {
	if st == nil {
		return Tok{K: "none", Text: Bytes{}, Sid: -1}
	}
	if st.Text != nil {
		return Tok{K: "text", Text: Bytes(*st.Text), Sid: -1}
	}
	return Tok{K: "sid", Text: Bytes{}, Sid: st.LocalSID}
}

func toksFromIon(as []ion.SymbolToken) []Tok {
	out := make([]Tok, len(as))
	for i := range as {
		out[i] = tokFromIon(&as[i])
	}
	return out
}

// foreignSID, when not zero, is attached to every token that has text: a token read from another stream carries
// the ID it had there, which means nothing in the stream being written (writer mode "binsid").
var foreignSID int64

func tokToIon(t Tok) ion.SymbolToken {
	switch t.K {
	case "text":
		s := string(t.Text)
		if foreignSID != 0 {
			return ion.SymbolToken{Text: &s, LocalSID: foreignSID}
		}
		return ion.SymbolToken{Text: &s, LocalSID: ion.SymbolIDUnknown}
	case "sid":
		return ion.SymbolToken{LocalSID: t.Sid}
	default: // "bad": neither text nor id
		return ion.SymbolToken{LocalSID: ion.SymbolIDUnknown}
	}
}

var typeNames = map[ion.Type]string{
	ion.NullType: "null", ion.BoolType: "bool", ion.IntType: "int", ion.FloatType: "float",
	ion.DecimalType: "decimal", ion.TimestampType: "timestamp", ion.SymbolType: "symbol",
	ion.StringType: "string", ion.ClobType: "clob", ion.BlobType: "blob", ion.ListType: "list",
	ion.SexpType: "sexp", ion.StructType: "struct",
}

var typeByName = func() map[string]ion.Type {
	m := map[string]ion.Type{}
	for k, v := range typeNames {
		m[v] = k
	}
	return m
}()

func intFromBig(b *big.Int) IntV {
	return IntV{Neg: b.Sign() < 0, Mag: Bytes(new(big.Int).Abs(b).Bytes())}
}

func (iv IntV) Big() *big.Int {
	b := new(big.Int).SetBytes(iv.Mag)
	if iv.Neg {
		b.Neg(b)
	}
	return b
}

func floatBits(f float64) Bytes {
	if math.IsNaN(f) {
		return Bytes{0x7f, 0xf8, 0, 0, 0, 0, 0, 0}
	}
	u := math.Float64bits(f)
	out := make(Bytes, 8)
	for i := 0; i < 8; i++ {
		out[i] = byte(u >> (56 - 8*uint(i)))
	}
	return out
}

func floatFromBits(b Bytes) float64 {
	var u uint64
	for i := 0; i < 8; i++ {
		u = u<<8 | uint64(b[i])
	}
	return math.Float64frombits(u)
}

func decFromIon(d *ion.Decimal) DecV {
	coef, exp := d.CoEx()
	neg := coef.Sign() < 0
	if coef.Sign() == 0 {
		neg = decimalIsNegZero(d)
	}
	return DecV{Neg: neg, Coef: Bytes(new(big.Int).Abs(coef).Bytes()), Exp: int64(exp)}
}

func (dv DecV) Ion() *ion.Decimal {
	c := new(big.Int).SetBytes(dv.Coef)
	if dv.Neg {
		c.Neg(c)
	}
	return ion.NewDecimal(c, int32(dv.Exp), dv.Neg && len(dv.Coef) == 0)
}

func tsFromIon(ts ion.Timestamp) TsV {
	dt := ts.GetDateTime()
	_, offSec := dt.Zone()
	u := dt.UTC()
	prec := int(ts.GetPrecision())
	nf := int(ts.GetNumberOfFractionalSeconds())
	frac := Bytes{}
	if prec >= 6 {
		ns := fmt.Sprintf("%09d", u.Nanosecond())
		if nf > 9 {
			nf = 9
		}
		for i := 0; i < nf; i++ {
			frac = append(frac, ns[i]-'0')
		}
		if nf == 0 {
			prec = 5
		} else {
			prec = 6
		}
	}
	out := TsV{Y: u.Year(), Mo: int(u.Month()), D: u.Day(), H: u.Hour(), Mi: u.Minute(), S: u.Second(),
		Frac: frac, Off: offSec / 60, Known: ts.GetTimezoneKind() != ion.TimezoneUnspecified, Prec: prec}
	if prec <= 3 {
		// date-only timestamps: report the calendar date as written (no time of day, unknown offset)
		out.Y, out.Mo, out.D = dt.Year(), int(dt.Month()), dt.Day()
		out.H, out.Mi, out.S, out.Off, out.Known = 0, 0, 0, 0, false
	}
	if !out.Known {
		out.Off = 0
	}
	return out
}

func (tv TsV) Ion() ion.Timestamp {
	ns := 0
	for i := 0; i < 9; i++ {
		ns *= 10
		if i < len(tv.Frac) {
			ns += int(tv.Frac[i])
		}
	}
	dt := time.Date(tv.Y, time.Month(tv.Mo), tv.D, tv.H, tv.Mi, tv.S, ns, time.UTC)
	prec := ion.TimestampPrecision(tv.Prec)
	if tv.Prec <= 3 {
		return ion.NewTimestamp(dt, prec, ion.TimezoneUnspecified)
	}
	kind := ion.TimezoneUnspecified
	if tv.Known {
		if tv.Off == 0 {
			kind = ion.TimezoneUTC
		} else {
			kind = ion.TimezoneLocal
			dt = dt.In(time.FixedZone("", tv.Off*60))
		}
	}
	return ion.NewTimestampWithFractionalSeconds(dt, prec, kind, uint8(len(tv.Frac)))
}

func bigFromInt64(i int64) *big.Int { return big.NewInt(i) }
