"""Shared machinery for the /verif checks: TLC runner, harness builder, evidence, findings.

Exit codes of a check: 0 held (possibly with KNOWN-FINDING lines), 1 confirmed unlisted violation
(VIOLATION property=<id> replay=<path>), 2 the machinery itself failed (never a VIOLATION line).
"""
import hashlib
import json
import os
import re
import shutil
import subprocess
import sys
import time

VERIF = os.path.dirname(os.path.dirname(os.path.abspath(__file__)))
SPEC = os.path.join(VERIF, "spec")
HARNESS_SRC = os.path.join(VERIF, "harness")
BUILD = os.path.join(VERIF, ".build")
WORK = os.path.join(VERIF, ".work")
REPO = os.environ.get("VERIF_REPO", "/repo")
TLA_JAR = "/opt/veriftools/tla/tla2tools.jar:/opt/veriftools/tla/CommunityModules-deps.jar"


class MachineryError(Exception):
    """The check could not be carried out (exit 2)."""


def go_env():
    env = dict(os.environ)
    env.update(GOFLAGS="-mod=mod", GOPROXY="off", GOSUMDB="off", GOTOOLCHAIN="local")
    env.setdefault("GOCACHE", os.path.join(BUILD, "gocache"))
    return env


def seed():
    try:
        return int(os.environ.get("VERIF_SEED", "1"))
    except ValueError:
        return 1


def build_harness():
    """Rebuild the harness against the current working tree of REPO (hooks on: -tags verif)."""
    os.makedirs(BUILD, exist_ok=True)
    src = os.path.join(BUILD, "harness-src")
    if os.path.isdir(src):
        shutil.rmtree(src)
    shutil.copytree(HARNESS_SRC, src)
    with open(os.path.join(src, "go.mod"), "w") as f:
        f.write("module verifharness\n\ngo 1.21\n\nrequire github.com/amzn/ion-go v0.0.0\n\n"
                "replace github.com/amzn/ion-go => %s\n" % REPO)
    shutil.copy(os.path.join(REPO, "go.sum"), os.path.join(src, "go.sum"))
    out = os.path.join(BUILD, "harness")
    p = subprocess.run(["go", "build", "-tags", "verif", "-o", out, "."], cwd=src, env=go_env(),
                       stdout=subprocess.PIPE, stderr=subprocess.STDOUT, text=True)
    if p.returncode != 0:
        raise MachineryError("harness build failed:\n" + p.stdout)
    return out


def build_race_harness():
    """The same harness built with the race detector (needs the go1.26.8 toolchain: the default go has no race runtime)."""
    src = os.path.join(BUILD, "harness-src")
    out = os.path.join(BUILD, "harness-race")
    go = shutil.which("go1.26.8") or shutil.which("go1.26")
    if not go:
        raise MachineryError("no Go toolchain with a race runtime (go1.26.8) on PATH")
    env = go_env()
    env["CGO_ENABLED"] = "1"
    p = subprocess.run([go, "build", "-race", "-tags", "verif", "-o", out, "."], cwd=src, env=env,
                       stdout=subprocess.PIPE, stderr=subprocess.STDOUT, text=True)
    if p.returncode != 0:
        raise MachineryError("race harness build failed:\n" + p.stdout)
    return out


def run_harness(sub, infile, outfile, timeout=600, extra_env=None, args=(), binary="harness"):
    env = go_env()
    if extra_env:
        env.update(extra_env)
    with open(infile, "rb") as fi, open(outfile, "wb") as fo:
        p = subprocess.run([os.path.join(BUILD, binary), sub, *args], stdin=fi, stdout=fo,
                           stderr=subprocess.PIPE, env=env, timeout=timeout)
    if p.returncode != 0:
        raise MachineryError("harness %s failed (exit %d): %s" % (sub, p.returncode, p.stderr.decode()[-2000:]))


class Workdir:
    """Scratch directory holding a copy of the spec; removed on exit."""

    def __init__(self, name):
        self.path = os.path.join(WORK, "%s-%d" % (name, os.getpid()))

    def __enter__(self):
        if os.path.isdir(self.path):
            shutil.rmtree(self.path)
        os.makedirs(self.path)
        for f in os.listdir(SPEC):
            if f.endswith(".tla") or f.endswith(".cfg"):
                shutil.copy(os.path.join(SPEC, f), self.path)
        return self

    def __exit__(self, *a):
        if not os.environ.get("VERIF_KEEP"):
            shutil.rmtree(self.path, ignore_errors=True)

    def sub(self, name):
        """A fresh copy of the spec in a sub-directory (for parallel TLC runs)."""
        d = os.path.join(self.path, name)
        os.makedirs(d)
        for f in os.listdir(SPEC):
            if f.endswith(".tla") or f.endswith(".cfg"):
                shutil.copy(os.path.join(SPEC, f), d)
        return d

    def file(self, name):
        return os.path.join(self.path, name)


TLC_STATS = re.compile(r"(\d+) states generated, (\d+) distinct states found")


def tlc_cmd(module, cfg=None, workers=1, args=(), heap="4g"):
    cmd = ["java", "-XX:+UseParallelGC", "-Xss512m", "-Xmx" + heap, "-cp", TLA_JAR, "tlc2.TLC",
           "-workers", str(workers), "-metadir", "states", "-noGenerateSpecTE"]
    if cfg:
        cmd += ["-config", cfg]
    cmd += list(args) + [module]
    return cmd


def run_tlc(cwd, module, cfg=None, workers=1, args=(), timeout=900, heap="4g", ok_codes=(0,)):
    """Run TLC in cwd.  Returns dict(out, generated, distinct, wall)."""
    t0 = time.time()
    try:
        p = subprocess.run(tlc_cmd(module, cfg, workers, args, heap), cwd=cwd, stdout=subprocess.PIPE,
                           stderr=subprocess.STDOUT, text=True, timeout=timeout)
    except subprocess.TimeoutExpired:
        raise MachineryError("TLC timed out after %ds on %s" % (timeout, module))
    finally:
        shutil.rmtree(os.path.join(cwd, "states"), ignore_errors=True)
    out = p.stdout
    m = TLC_STATS.findall(out)
    gen, dist = (int(m[-1][0]), int(m[-1][1])) if m else (0, 0)
    if p.returncode not in ok_codes:
        raise MachineryError("TLC failed on %s (exit %d):\n%s" % (module, p.returncode, out[-3000:]))
    return dict(out=out, generated=gen, distinct=dist, wall=time.time() - t0, code=p.returncode)


def start_tlc(cwd, module, cfg=None, workers=1, args=(), heap="2g"):
    return subprocess.Popen(tlc_cmd(module, cfg, workers, args, heap), cwd=cwd, stdout=subprocess.PIPE,
                            stderr=subprocess.STDOUT, text=True)


def finish_tlc(proc, cwd, module, timeout=900):
    try:
        out, _ = proc.communicate(timeout=timeout)
    except subprocess.TimeoutExpired:
        proc.kill()
        raise MachineryError("TLC timed out after %ds on %s" % (timeout, module))
    finally:
        shutil.rmtree(os.path.join(cwd, "states"), ignore_errors=True)
    m = TLC_STATS.findall(out)
    gen, dist = (int(m[-1][0]), int(m[-1][1])) if m else (0, 0)
    if proc.returncode != 0:
        raise MachineryError("TLC failed on %s (exit %d):\n%s" % (module, proc.returncode, out[-3000:]))
    return dict(out=out, generated=gen, distinct=dist)


def write_cfg(path, lines):
    with open(path, "w") as f:
        f.write("\n".join(lines) + "\n")


def read_ndjson(path):
    with open(path) as f:
        return [json.loads(line) for line in f if line.strip()]


def write_ndjson(path, rows):
    with open(path, "w") as f:
        for r in rows:
            f.write(json.dumps(r, separators=(",", ":")) + "\n")


HIST_RE = re.compile(r"^/\\ hist = <<(.*)>>\s*$")


def parse_hist_dump(path, want_len=None):
    """Distinct `hist` tuples of integers from a `tlc -dump` file."""
    seen = set()
    with open(path) as f:
        for line in f:
            m = HIST_RE.match(line)
            if m:
                body = m.group(1).strip()
                t = tuple(int(x) for x in body.split(",")) if body else ()
                if want_len is None or len(t) == want_len:
                    seen.add(t)
    return sorted(seen)


# ---------------------------------------------------------------- findings / verdicts

def load_findings():
    p = os.path.join(VERIF, "known_findings.json")
    if not os.path.exists(p):
        return []
    with open(p) as f:
        return json.load(f).get("findings", [])


def match_finding(prop, signature_text, findings=None):
    """A known finding matches when every regexp in its `match` list is found in the
    failing case's signature text (a JSON dump of feature labels + symptom)."""
    for fnd in (findings if findings is not None else load_findings()):
        if fnd.get("status") != "known" or fnd.get("property") != prop:
            continue
        if all(re.search(rx, signature_text) for rx in fnd.get("match", [])):
            return fnd
    return None


class Verdicts:
    """Collects failures of one check run, separates known findings from violations."""

    def __init__(self, prop):
        self.prop = prop
        self.findings = load_findings()
        self.violations = []     # (replay path, summary)
        self.known = {}          # finding id -> count

    def fail(self, signature, replay_obj):
        """signature: dict of feature labels + symptom; replay_obj: self-contained case."""
        text = json.dumps(signature, sort_keys=True)
        fnd = match_finding(self.prop, text, self.findings)
        if fnd:
            self.known[fnd["id"]] = self.known.get(fnd["id"], 0) + 1
            return fnd
        d = os.path.join(os.environ.get("VERIF_REPLAY_DIR", os.path.join(VERIF, "replays")), self.prop)
        os.makedirs(d, exist_ok=True)
        blob = json.dumps(dict(property=self.prop, signature=signature, case=replay_obj), sort_keys=True)
        path = os.path.join(d, hashlib.sha1(blob.encode()).hexdigest()[:16] + ".json")
        with open(path, "w") as f:
            f.write(blob)
        self.violations.append((path, text[:300]))
        return None

    def report(self):
        by_id = {f["id"]: f for f in self.findings}
        for fid, n in sorted(self.known.items()):
            print("KNOWN-FINDING: property=%s %s [%s, %d cases]" % (self.prop, by_id[fid]["what"], fid, n))
        shown = 0
        for path, text in self.violations:
            if shown < 25:
                print("VIOLATION property=%s replay=%s" % (self.prop, path))
                print("  " + text)
            shown += 1
        if shown > 25:
            print("... %d further violations not listed" % (shown - 25))
        return 1 if self.violations else 0


def write_evidence(prop, tier, level, coverage, wall, violations, assumptions=()):
    evdir = os.environ.get("VERIF_EVIDENCE_DIR", os.path.join(VERIF, "evidence"))
    os.makedirs(evdir, exist_ok=True)
    ev = dict(property_id=prop, tier=tier, seed=seed(), level=level, coverage=coverage,
              assumptions=list(assumptions), wall_s=round(wall, 2), violations=violations)
    with open(os.path.join(evdir, prop + ".json"), "w") as f:
        json.dump(ev, f, indent=1, sort_keys=True)


def shard(rows, n):
    return [rows[i::n] for i in range(n)]


# ---------------------------------------------------------------- generic helpers

def cfg_value(v):
    if isinstance(v, bool):
        return "TRUE" if v else "FALSE"
    if isinstance(v, int):
        return str(v)
    return '"%s"' % v


def tlc_eval(d, module, constants, timeout=1800, heap="3g", background=False, extra=()):
    """Evaluate a module whose work is done in ASSUMEs (GEN / JUDGE modules)."""
    write_cfg(os.path.join(d, module + ".cfg"),
              list(extra) + ["CONSTANTS"] + ["  %s = %s" % (k, cfg_value(v)) for k, v in constants.items()])
    if background:
        return start_tlc(d, module, module + ".cfg", workers=1, heap=heap)
    return run_tlc(d, module, module + ".cfg", workers=1, timeout=timeout, heap=heap)


def streams(n, length, seed_, salt=0, hi=1 << 20):
    import random
    rnd = random.Random(seed_ * 1000003 + salt)
    return [dict(s=[rnd.randrange(hi) for _ in range(length)]) for _ in range(n)]


def parallel(jobs, nproc=14):
    """jobs: list of zero-arg callables; run in a thread pool, re-raise the first exception."""
    from concurrent.futures import ThreadPoolExecutor
    with ThreadPoolExecutor(max_workers=nproc) as ex:
        futs = [ex.submit(j) for j in jobs]
        return [f.result() for f in futs]


def wall_guard(t0, budget):
    if time.time() - t0 > budget:
        raise MachineryError("wall-clock guard: %.0fs exceeded" % budget)
