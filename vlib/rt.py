"""Write-then-read pipeline shared by C01 and C04 (and reused by others):
GEN   forests from spec/Catalogue.tla (exhaustive slot cases + stream-driven random forests)
EXEC  harness `roundtrip`: each forest through the three real writers, bytes read back by the real reader
JUDGE spec/Judge_RT.tla: c01 = Equiv(read-back, forest); c04 = the specification's decoder accepts the
      bytes and recovers the forest."""
import json
import os

from . import core


def gen_forests(wd, nrandom, seed, with_slots=True, salt=0, tag="gen"):
    d = wd.sub(tag)
    core.write_ndjson(os.path.join(d, "streams.ndjson"), core.streams(nrandom, 160, seed, salt))
    r = core.tlc_eval(d, "Gen_Forests", dict(StreamFile="streams.ndjson", OutFile="forests.ndjson",
                                             WithSlots=with_slots), heap="6g")
    return core.read_ndjson(os.path.join(d, "forests.ndjson")), r


def exec_and_judge(wd, forests, nshards=14, tag="rt", sub="roundtrip"):
    """Returns (verdicts, observations) — verdict k belongs to observation k."""
    if not forests:
        return [], []
    nshards = max(1, min(nshards, len(forests) // 40 + 1))
    # contiguous shards of about equal WEIGHT (a forest of 16,000 symbols costs the judge what a thousand small ones do)
    import json as _json
    weights = [len(_json.dumps(f.get("forest", f), separators=(",", ":"))) + 200 for f in forests]
    total = sum(weights)
    cap = max(total / nshards, 1)
    if max(weights) > cap:                      # a few very heavy forests: let them have shards of their own
        cap = max(total / 14.0, 1)
    bounds, lo, acc = [], 0, 0
    for i, w in enumerate(weights):
        if acc and acc + w > cap:
            bounds.append((lo, i))
            lo, acc = i, 0
        acc += w
    bounds.append((lo, len(forests)))
    nshards = len(bounds)

    def job(k):
        lo, hi = bounds[k]
        d = wd.sub("%s%d" % (tag, k))
        core.write_ndjson(os.path.join(d, "forests.ndjson"), forests[lo:hi])
        core.run_harness(sub, os.path.join(d, "forests.ndjson"), os.path.join(d, "obs.ndjson"))
        core.tlc_eval(d, "Judge_RT", dict(ObsFile="obs.ndjson", ForestFile="forests.ndjson",
                                          VerdictFile="verdict.ndjson"), timeout=3300, heap="6g")
        vs = core.read_ndjson(os.path.join(d, "verdict.ndjson"))
        obs = core.read_ndjson(os.path.join(d, "obs.ndjson"))
        if len(vs) != len(obs):
            raise core.MachineryError("judge returned %d verdicts for %d observations" % (len(vs), len(obs)))
        for v, o in zip(vs, obs):
            v["gidx"] = lo + v["idx"] - 1      # index into the full forest list
            o["gidx"] = v["gidx"]
        return vs, obs

    res = core.parallel([lambda k=k: job(k) for k in range(nshards)])
    verdicts = [v for vs, _ in res for v in vs]
    obs = [o for _, os_ in res for o in os_]
    return verdicts, obs


def features(forest):
    """Feature labels of a forest (types, nulls, annotation/text features) for signatures."""
    feats = set()

    def tok(t, where):
        if t["k"] == "text":
            s = bytes(t["text"])
            feats.add("%s-text:%s" % (where, s[:12].decode("latin1")))
        else:
            feats.add("%s-sid" % where)

    def walk(v, depth):
        feats.add(("null." if v["null"] else "") + v["t"])
        for a in v["ann"]:
            tok(a, "ann")
        if v["ann"]:
            feats.add("annotated-" + v["t"])
        if v["null"]:
            return
        if v["t"] in ("list", "sexp"):
            for k in v["v"]:
                walk(k, depth + 1)
        elif v["t"] == "struct":
            for f in v["v"]:
                tok(f["name"], "field")
                walk(f["val"], depth + 1)
        elif v["t"] == "symbol":
            tok(v["v"], "symbol")
        elif v["t"] == "string":
            feats.add("string:%s" % bytes(v["v"])[:12].decode("latin1"))
    for v in forest:
        walk(v, 0)
    return sorted(feats)
