"""Writer-protocol pipeline shared by C12 (and reused by C19's write-fault half):
GEN programs from MC_WriterProto, EXEC on the real writers, JUDGE by Trace_WriterProto."""
import json
import os
import time

from . import core

FIXED = [[97]]          # the fixed table of the binlst configuration defines "a"
MODES = ["text", "pretty", "binary", "binlst"]


def export_alphabet(wd):
    d = wd.sub("alphabet")
    with open(os.path.join(d, "ExportAlphabet.tla"), "w") as f:
        f.write("---- MODULE ExportAlphabet ----\nEXTENDS WriterAlphabet, Json, TLC\nF == <<>>\n"
                "ASSUME ndJsonSerialize(\"alphabet.ndjson\", Alphabet)\n====\n")
    core.write_cfg(os.path.join(d, "ExportAlphabet.cfg"), ["CONSTANT FixedTexts <- F"])
    core.run_tlc(d, "ExportAlphabet", "ExportAlphabet.cfg")
    return core.read_ndjson(os.path.join(d, "alphabet.ndjson"))


def gen_cfg(path, mode, maxlen, use, first=None):
    lines = ["SPECIFICATION Spec", "CONSTANTS",
             '  Mode = "%s"' % mode,
             "  FixedTexts <- %s" % ("FixedA" if mode == "binlst" else "FixedNone"),
             "  MaxLen = %d" % maxlen, "  KeepHist = TRUE", "  Use <- %s" % use,
             "  MaxDepth = 20", "  MaxMembers = 20", "  MaxAnn = 20", "  MaxBatches = 20",
             "INVARIANTS TypeOK NamesOnlyInStructs",
             "PROPERTIES Sticky ErrSet FinishOk AppendOnly", "CHECK_DEADLOCK FALSE"]
    core.write_cfg(path, lines)


MC_BOUNDS = {"quick": dict(MaxDepth=2, MaxMembers=2, MaxAnn=1, MaxBatches=1),
             "thorough": dict(MaxDepth=2, MaxMembers=2, MaxAnn=2, MaxBatches=2)}


def mc_cfg(path, mode, tier):
    """MC: protocol properties on the content-hiding quotient (VIEW), full 34-call alphabet."""
    b = MC_BOUNDS[tier]
    lines = ["SPECIFICATION Spec", "CONSTANTS", '  Mode = "%s"' % mode,
             "  FixedTexts <- %s" % ("FixedA" if mode == "binlst" else "FixedNone"),
             "  MaxLen = 0", "  KeepHist = FALSE", "  Use <- Full"]
    lines += ["  %s = %d" % kv for kv in b.items()]
    lines += ["VIEW View", "INVARIANTS TypeOK NamesOnlyInStructs",
              "PROPERTIES Sticky ErrSet FinishOk AppendOnly", "CHECK_DEADLOCK FALSE"]
    core.write_cfg(path, lines)


def gen_programs(wd, mode, maxlen, use="Reduced", workers=4):
    """All maximal programs (leaves of the history tree) for one mode."""
    d = wd.sub("gen-" + mode)
    gen_cfg(os.path.join(d, "gen.cfg"), mode, maxlen, use)
    r = core.run_tlc(d, "MC_WriterProto", "gen.cfg", workers=workers, args=["-dump", "states.dump"],
                     heap="6g")
    progs = core.parse_hist_dump(os.path.join(d, "states.dump"), want_len=maxlen)
    os.remove(os.path.join(d, "states.dump"))
    return progs, r


def simulate_programs(wd, mode, depth, num, seed, use="Full"):
    """Random long programs: TLC -simulate over the full alphabet."""
    d = wd.sub("sim-" + mode)
    gen_cfg(os.path.join(d, "gen.cfg"), mode, depth, use)
    r = core.run_tlc(d, "MC_WriterProto", "gen.cfg", workers=1,
                     args=["-simulate", "file=sim,num=%d" % num, "-depth", str(depth + 1), "-seed", str(seed)],
                     ok_codes=(0,))
    progs = set()
    for f in os.listdir(d):
        if f.startswith("sim_"):
            best = ()
            with open(os.path.join(d, f)) as fh:
                for line in fh:
                    m = core.HIST_RE.match(line)
                    if m and m.group(1).strip():
                        t = tuple(int(x) for x in m.group(1).split(","))
                        if len(t) > len(best):
                            best = t
            if best:
                progs.add(best)
    return sorted(progs), r


def make_cases(alphabet, mode, progs, prefix=""):
    cases = []
    for k, p in enumerate(progs):
        cases.append(dict(id="%s%s:%s" % (prefix, mode, ".".join(map(str, p))), mode=mode,
                          fixed=FIXED if mode == "binlst" else [],
                          prog=[alphabet[i - 1] for i in p]))
    return cases


def validate_traces(wd, cases, nshards=14, tag="t"):
    """EXEC the cases, JUDGE the recorded traces with Trace_WriterProto (sharded, parallel).
    Returns (failed entries, number of events, number of traces)."""
    if not cases:
        return [], 0, 0
    nshards = max(1, min(nshards, len(cases) // 50 + 1))
    shards = core.shard(cases, nshards)
    procs = []
    nevents = 0
    for k, sh in enumerate(shards):
        d = wd.sub("%s%d" % (tag, k))
        core.write_ndjson(os.path.join(d, "cases.ndjson"), sh)
        core.run_harness("wproto", os.path.join(d, "cases.ndjson"), os.path.join(d, "trace.ndjson"))
        with open(os.path.join(d, "trace.ndjson")) as f:
            nevents += sum(1 for _ in f)
        procs.append((d, core.start_tlc(d, "Trace_WriterProto", "Trace_WriterProto.cfg", workers=1)))
    failed = []
    for d, p in procs:
        core.finish_tlc(p, d, "Trace_WriterProto", timeout=1800)
        vf = os.path.join(d, "verdict.ndjson")
        if not os.path.exists(vf):
            raise core.MachineryError("trace validation wrote no verdict in " + d)
        v = core.read_ndjson(vf)[0]
        failed.extend(v["failed"])
    return failed, nevents, len(cases)


def describe(case):
    """Feature labels of a program for known-finding signatures and samples."""
    out = []
    for c in case["prog"]:
        s = c["m"]
        if "tok" in c:
            s += "(%s)" % (c["tok"]["k"] if c["tok"]["k"] != "text" else "text:" + bytes(c["tok"]["text"]).decode())
        out.append(s)
    return out
