------------------------------ MODULE IonData ------------------------------
(***************************************************************************)
(* The Ion data model as TLC-evaluable values.                             *)
(*                                                                         *)
(* Bytes and text are sequences over 0..255 (TLC strings are atomic).      *)
(* Integer magnitudes are minimal big-endian byte sequences (<<>> = 0)     *)
(* because TLC integers are 32-bit.                                        *)
(*                                                                         *)
(* token  == [k |-> "text", text |-> bytes, sid |-> -1]                    *)
(*         | [k |-> "sid",  text |-> <<>>,  sid |-> n ]   (text unknown)   *)
(* value  == [t |-> type, null |-> BOOLEAN, ann |-> Seq(token), v |-> body]*)
(* body by type (only meaningful when ~null):                              *)
(*   "null"      <<>>                                                      *)
(*   "bool"      BOOLEAN                                                   *)
(*   "int"       [neg |-> BOOLEAN, mag |-> bytes]                          *)
(*   "float"     8 bytes (IEEE-754 binary64, big-endian), NaN canonical    *)
(*   "decimal"   [neg |-> BOOLEAN, coef |-> bytes, exp |-> Int]            *)
(*               (neg /\ coef = <<>>  is negative zero)                    *)
(*   "timestamp" [y,mo,d,h,mi,s |-> UTC fields, frac |-> digit seq,        *)
(*                off |-> minutes, known |-> BOOLEAN, prec |-> 1..6]       *)
(*               prec: 1 year 2 month 3 day 4 minute 5 second 6 fraction   *)
(*   "symbol"    token                                                     *)
(*   "string"    bytes (valid UTF-8)                                       *)
(*   "clob" "blob"  bytes                                                  *)
(*   "list" "sexp"  Seq(value)                                             *)
(*   "struct"    Seq([name |-> token, val |-> value])   (ordered)          *)
(***************************************************************************)
EXTENDS Integers, Sequences, FiniteSets

Types == {"null", "bool", "int", "float", "decimal", "timestamp", "symbol",
          "string", "clob", "blob", "list", "sexp", "struct"}

TypeSeq == <<"null", "bool", "int", "float", "decimal", "timestamp", "symbol",
             "string", "clob", "blob", "list", "sexp", "struct">>

TextTok(b) == [k |-> "text", text |-> b, sid |-> -1]
SidTok(n)  == [k |-> "sid", text |-> <<>>, sid |-> n]

TokEq(a, b) == /\ a.k = b.k
               /\ IF a.k = "text" THEN a.text = b.text ELSE a.sid = b.sid

Val(t, ann, v)  == [t |-> t, null |-> FALSE, ann |-> ann, v |-> v]
NullVal(t, ann) == [t |-> t, null |-> TRUE, ann |-> ann, v |-> <<>>]

NaNBits == <<127, 248, 0, 0, 0, 0, 0, 0>>
PosZeroBits == <<0, 0, 0, 0, 0, 0, 0, 0>>

\* canonical form of a float bit pattern: all NaNs are one value
IsNaNBits(b) == /\ (b[1] % 128) = 127 /\ b[2] >= 240
                /\ ((b[2] % 16) # 0 \/ \E i \in 3..8 : b[i] # 0)
CanonFloat(b) == IF IsNaNBits(b) THEN NaNBits ELSE b

SeqAll(s, P(_)) == \A i \in 1..Len(s) : P(s[i])

AnnEq(a, b) == /\ Len(a) = Len(b)
               /\ \A i \in 1..Len(a) : TokEq(a[i], b[i])

(***************************************************************************)
(* Equiv: "the same values in the Ion data model" as every property means  *)
(* it.  Struct fields are compared in order (every listed property         *)
(* promises order preservation).                                           *)
(***************************************************************************)
RECURSIVE Equiv(_, _)
Equiv(a, b) ==
  /\ a.t = b.t
  /\ a.null = b.null
  /\ AnnEq(a.ann, b.ann)
  /\ \/ a.null
     \/ CASE a.t = "null"   -> TRUE
          [] a.t = "bool"   -> a.v = b.v
          [] a.t = "int"    -> a.v.neg = b.v.neg /\ a.v.mag = b.v.mag
          [] a.t = "float"  -> CanonFloat(a.v) = CanonFloat(b.v)
          [] a.t = "decimal" -> a.v.neg = b.v.neg /\ a.v.coef = b.v.coef /\ a.v.exp = b.v.exp
          [] a.t = "timestamp" -> a.v = b.v
          [] a.t = "symbol" -> TokEq(a.v, b.v)
          [] a.t \in {"string", "clob", "blob"} -> a.v = b.v
          [] a.t \in {"list", "sexp"} ->
               /\ Len(a.v) = Len(b.v)
               /\ \A i \in 1..Len(a.v) : Equiv(a.v[i], b.v[i])
          [] a.t = "struct" ->
               /\ Len(a.v) = Len(b.v)
               /\ \A i \in 1..Len(a.v) : /\ TokEq(a.v[i].name, b.v[i].name)
                                          /\ Equiv(a.v[i].val, b.v[i].val)

ForestEquiv(f, g) == /\ Len(f) = Len(g)
                     /\ \A i \in 1..Len(f) : Equiv(f[i], g[i])

\* first index at which two forests differ (0 if equivalent) - for diagnostics
FirstDiff(f, g) ==
  IF \E i \in 1..Len(f) : i > Len(g) \/ ~Equiv(f[i], g[i])
  THEN CHOOSE i \in 1..Len(f) : /\ (i > Len(g) \/ ~Equiv(f[i], g[i]))
                                /\ \A j \in 1..(i-1) : j <= Len(g) /\ Equiv(f[j], g[j])
  ELSE IF Len(g) > Len(f) THEN Len(f) + 1 ELSE 0

(***************************************************************************)
(* Byte-sequence helpers                                                   *)
(***************************************************************************)
RECURSIVE StripLeadingZeros(_)
StripLeadingZeros(b) == IF b # <<>> /\ b[1] = 0 THEN StripLeadingZeros(Tail(b)) ELSE b

Slice(b, from, to) == SubSeq(b, from, to)      \* inclusive, <<>> when to < from

\* well-known symbol texts as bytes
T_ion        == <<36,105,111,110>>
T_ion_1_0    == <<36,105,111,110,95,49,95,48>>
T_ion_symbol_table == <<36,105,111,110,95,115,121,109,98,111,108,95,116,97,98,108,101>>
T_name       == <<110,97,109,101>>
T_version    == <<118,101,114,115,105,111,110>>
T_imports    == <<105,109,112,111,114,116,115>>
T_symbols    == <<115,121,109,98,111,108,115>>
T_max_id     == <<109,97,120,95,105,100>>
T_ion_shared_symbol_table ==
  <<36,105,111,110,95,115,104,97,114,101,100,95,115,121,109,98,111,108,95,116,97,98,108,101>>

SystemTexts == <<T_ion, T_ion_1_0, T_ion_symbol_table, T_name, T_version, T_imports,
                 T_symbols, T_max_id, T_ion_shared_symbol_table>>

=============================================================================
