---------------------------- MODULE ReaderDriver ----------------------------
(***************************************************************************)
(* The caller of a Reader (C06): at every moment it may make any call.     *)
(* The Reader's contract is that every call, in every state and on every   *)
(* input, returns - a value or an error.  The caller is modelled with no   *)
(* knowledge of the document: the four call classes are always enabled     *)
(* (Total), and TLC enumerates every call sequence up to MaxLen; each is   *)
(* replayed on the real Reader over hostile inputs.                        *)
(*   1 N  Next        2 I  StepIn       3 O  StepOut                       *)
(*   4 A  every accessor (Type, IsNull, FieldName, Annotations, all value  *)
(*        accessors whether they fit the type or not, SymbolTable, Err)    *)
(***************************************************************************)
EXTENDS Naturals, Sequences
CONSTANT MaxLen
VARIABLE hist
Calls == 1..4
Do(c) == hist' = Append(hist, c)
Init == hist = <<>>
Next == Len(hist) < MaxLen /\ \E c \in Calls : Do(c)
Spec == Init /\ [][Next]_hist
Total == Len(hist) < MaxLen => \A c \in Calls : ENABLED Do(c)
=============================================================================
