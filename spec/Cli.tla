-------------------------------- MODULE Cli --------------------------------
(***************************************************************************)
(* `ion-go process` as a function of its input (C20).                      *)
(*   -f text | pretty | binary : the output denotes the input's values     *)
(*   -f events : $ion_event_stream, then one event per scalar (SCALAR),    *)
(*       per container boundary (CONTAINER_START / CONTAINER_END) and one  *)
(*       STREAM_END; each event carries ion_type, depth, the field name    *)
(*       and annotations of the value, and for scalars value_text, an Ion  *)
(*       text literal of the value                                         *)
(*   -f none : no output                                                   *)
(* Events(forest) is the expected event sequence; an emitted event struct  *)
(* is compared field by field (EventMatches).                              *)
(***************************************************************************)
EXTENDS IonText, SequencesExt

NoNameE == [k |-> "none", text |-> <<>>, sid |-> -1]
Ev(kind, t, depth, name, ann, val) == [kind |-> kind, t |-> t, depth |-> depth, name |-> name, ann |-> ann, val |-> val]

IsContV(v) == v.t \in {"list", "sexp", "struct"} /\ ~v.null

RECURSIVE EventsOf(_, _, _)
EventsOf(v, name, depth) ==
  IF ~IsContV(v) THEN <<Ev("SCALAR", v.t, depth, name, v.ann, [v EXCEPT !.ann = <<>>])>>
  ELSE <<Ev("CONTAINER_START", v.t, depth, name, v.ann, v)>>
       \o FlattenSeq([i \in 1..Len(v.v) |->
             IF v.t = "struct" THEN EventsOf(v.v[i].val, v.v[i].name, depth + 1) ELSE EventsOf(v.v[i], NoNameE, depth + 1)])
       \o <<Ev("CONTAINER_END", v.t, depth, NoNameE, <<>>, v)>>

Events(forest) == FlattenSeq([i \in 1..Len(forest) |-> EventsOf(forest[i], NoNameE, 0)])
                  \o <<Ev("STREAM_END", "none", 0, NoNameE, <<>>, NullVal("null", <<>>))>>

UpperName(t) == [i \in 1..Len(TypeNameBytes[t]) |-> TypeNameBytes[t][i] - 32]

\* fields of an emitted struct by (text) name
FieldsE(s, n) == SelectSeq(s.v, LAMBDA f : f.name.k = "text" /\ f.name.text = n)
HasF(s, n) == FieldsE(s, n) # <<>>
GetF(s, n) == FieldsE(s, n)[1].val
SymText(v) == IF v.t = "symbol" /\ ~v.null /\ v.v.k = "text" THEN v.v.text ELSE <<0>>

N_event_type == <<101,118,101,110,116,95,116,121,112,101>>
N_ion_type == <<105,111,110,95,116,121,112,101>>
N_field_name == <<102,105,101,108,100,95,110,97,109,101>>
N_annotations == <<97,110,110,111,116,97,116,105,111,110,115>>
N_value_text == <<118,97,108,117,101,95,116,101,120,116>>
N_depth == <<100,101,112,116,104>>
KindBytes(k) == CASE k = "SCALAR" -> <<83,67,65,76,65,82>>
                  [] k = "CONTAINER_START" -> <<67,79,78,84,65,73,78,69,82,95,83,84,65,82,84>>
                  [] k = "CONTAINER_END" -> <<67,79,78,84,65,73,78,69,82,95,69,78,68>>
                  [] k = "STREAM_END" -> <<83,84,82,69,65,77,95,69,78,68>>

\* a symbol token as the CLI serialises it: a struct holding the text somewhere as a string
TokenTextIn(s, tok) ==
  /\ s.t = "struct" /\ ~s.null
  /\ IF tok.k = "text"
     THEN \E i \in 1..Len(s.v) : s.v[i].val.t = "string" /\ ~s.v[i].val.null /\ s.v[i].val.v = tok.text
     ELSE TRUE

IntIs(v, n) == v.t = "int" /\ ~v.null /\ ~v.v.neg /\ ToSmall(v.v.mag) = n

EventMatches(s, e) ==
  /\ s.t = "struct" /\ ~s.null
  /\ HasF(s, N_event_type) /\ SymText(GetF(s, N_event_type)) = KindBytes(e.kind)
  /\ HasF(s, N_depth) /\ IntIs(GetF(s, N_depth), e.depth)
  /\ (e.kind # "STREAM_END" => HasF(s, N_ion_type) /\ SymText(GetF(s, N_ion_type)) = UpperName(e.t))
  /\ (e.name.k # "none" <=> HasF(s, N_field_name))
  /\ (e.name.k # "none" => TokenTextIn(GetF(s, N_field_name), e.name))
  /\ (e.kind \in {"SCALAR", "CONTAINER_START"} =>
        IF e.ann = <<>> THEN ~HasF(s, N_annotations)
        ELSE /\ HasF(s, N_annotations) /\ GetF(s, N_annotations).t = "list" /\ ~GetF(s, N_annotations).null
             /\ Len(GetF(s, N_annotations).v) = Len(e.ann)
             /\ \A i \in 1..Len(e.ann) : TokenTextIn(GetF(s, N_annotations).v[i], e.ann[i]))
  /\ (e.kind = "SCALAR" =>
        /\ HasF(s, N_value_text) /\ GetF(s, N_value_text).t = "string" /\ ~GetF(s, N_value_text).null
        /\ LET d == TextDecode(GetF(s, N_value_text).v)
           IN d.ok /\ Len(d.forest) = 1 /\ Equiv(d.forest[1], e.val))

T_event_stream == <<36,105,111,110,95,101,118,101,110,116,95,115,116,114,101,97,109>>
EventsOK(out, forest) ==
  LET d == TextDecode(out)
      ex == Events(forest)
  IN IF ~d.ok THEN "events output is not valid Ion text: " \o d.why
     ELSE IF d.forest = <<>> \/ SymText(d.forest[1]) # T_event_stream THEN "events output does not start with $ion_event_stream"
     ELSE IF Len(d.forest) - 1 # Len(ex) THEN "number of events differs from values + container boundaries + stream end"
     ELSE IF \E i \in 1..Len(ex) : ~EventMatches(d.forest[i + 1], ex[i]) THEN "an event does not describe its value"
     ELSE "ok"
=============================================================================
