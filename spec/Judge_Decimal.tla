---------------------------- MODULE Judge_Decimal ----------------------------
(* JUDGE for C14: every result of the real Decimal methods against spec/Decimal.tla; String() output is *)
(* parsed by the specification's text decoder and must denote exactly the decimal (coefficient, exponent, *)
(* negative zero), and ParseDecimal of that text must return it too.                                       *)
EXTENDS Decimal, IonText, Json, TLC
CONSTANTS ObsFile, CaseFile, VerdictFile
Obs   == ndJsonDeserialize(ObsFile)      \* [idx, res ("val"|"int"|"bool"|"text"|"panic"|"err"), d, n, b, text, parsed, msg]
Cases == ndJsonDeserialize(CaseFile)

Exact(x, y) == x.neg = y.neg /\ x.coef = y.coef /\ x.exp = y.exp

\* exponents are int32: a product whose exponent does not fit may be refused (ion-go panics "exponent out of bounds"),
\* it must not come back as another number; the sums are tested without computing them (TLC integers are 32-bit too)
MaxE == 2147483647
ExpSumFits(x, y) == IF x >= 0 /\ y >= 0 THEN x <= MaxE - y
                    ELSE IF x < 0 /\ y < 0 THEN x >= (0 - MaxE) - y
                    ELSE TRUE
OnEdge(x, y) == (x >= 0 /\ y >= 0 /\ x = (MaxE - y) + 1) \/ (x < 0 /\ y < 0 /\ x = ((0 - MaxE) - y) - 1)
Unchanged(o, c) == Exact(o.aafter, c.a) /\ (c.op \in {"Add", "Sub", "Mul", "Cmp", "Equal"} => Exact(o.bafter, c.b))

Why(o, c) ==
  IF c.op = "Mul" /\ ~ExpSumFits(c.a.exp, c.b.exp) THEN
     (IF o.res = "panic" \/ OnEdge(c.a.exp, c.b.exp) THEN "ok" ELSE "a product whose exponent does not fit came back as a number")
  ELSE IF o.res = "panic" THEN "panic"
  ELSE IF ~Unchanged(o, c) THEN "an operand was changed by the operation"
  ELSE IF c.op \in {"Add", "Sub", "Mul", "Neg", "Abs", "ShiftL", "ShiftR", "Truncate"} THEN
       LET e == CASE c.op = "Add" -> DAdd(c.a, c.b) [] c.op = "Sub" -> DSub(c.a, c.b) [] c.op = "Mul" -> DMul(c.a, c.b)
                  [] c.op = "Neg" -> DNeg(c.a) [] c.op = "Abs" -> DAbs(c.a) [] c.op = "ShiftL" -> DShiftL(c.a, c.n)
                  [] c.op = "ShiftR" -> DShiftR(c.a, c.n) [] c.op = "Truncate" -> DTruncate(c.a, c.n)
       IN IF o.res # "val" THEN "no decimal returned"
          ELSE IF ~ValEq(o.d, e) THEN "result is not the exact value"
          ELSE IF c.op = "Truncate" /\ SigDigits(o.d) > c.n /\ SigDigits(c.a) > c.n THEN "more significant digits than requested"
          ELSE "ok"
  ELSE IF c.op = "Cmp" THEN (IF o.res = "int" /\ o.n = DCmp(c.a, c.b) THEN "ok" ELSE "Cmp disagrees with exact comparison")
  ELSE IF c.op = "Sign" THEN (IF o.res = "int" /\ o.n = DSign(c.a) THEN "ok" ELSE "Sign disagrees")
  ELSE IF c.op = "Equal" THEN (IF o.res = "bool" /\ o.b = ValEq(c.a, c.b) THEN "ok" ELSE "Equal disagrees with exact comparison")
  ELSE \* String
       IF o.res # "text" THEN "no text returned"
       ELSE LET d == TextDecode(o.text)
            IN IF ~d.ok THEN (IF Len(d.why) >= 0 /\ d.why \in {"limit: exponent beyond 2^30"} THEN "ok" ELSE "text is not a valid Ion literal: " \o d.why)
               ELSE IF Len(d.forest) # 1 \/ d.forest[1].t # "decimal" \/ d.forest[1].null \/ d.forest[1].ann # <<>>
                    THEN "text is not a single decimal literal"
               ELSE IF ~Exact(d.forest[1].v, c.a) THEN "text denotes another coefficient, exponent or negative zero"
               ELSE IF ~o.parsedok THEN "ParseDecimal rejects the text String() produced"
               ELSE IF ~Exact(o.parsed, c.a) THEN "ParseDecimal(String(d)) differs from d"
               ELSE "ok"

Verdict(o) == [idx |-> o.idx, why |-> Why(o, Cases[o.idx])]
ASSUME ndJsonSerialize(VerdictFile, [i \in 1..Len(Obs) |-> Verdict(Obs[i])])
=============================================================================
