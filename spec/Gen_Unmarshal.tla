---------------------------- MODULE Gen_Unmarshal ----------------------------
(* GEN for C17: Ion values of every type (typed nulls, symbols with and without text, integers at every Go   *)
(* width boundary +-1, floats beyond float32, lobs, lists, structs with unknown / duplicate / case-differing  *)
(* field names, annotated values) rendered in text and binary; and streams of 0..4 values for the Decoder.    *)
EXTENDS Catalogue, IonBinaryEnc, IonTextEnc, Json, TLC
CONSTANTS OutFile, StreamOutFile

Widths == <<7, 8, 15, 16, 31, 32, 63, 64>>
WidthInts == FlattenSeq([i \in 1..Len(Widths) |-> LET p == Pow2(Widths[i])
               IN <<IntVal(FALSE, Sub(p, <<1>>)), IntVal(FALSE, p), IntVal(TRUE, p), IntVal(TRUE, Add(p, <<1>>))>>])
          \o <<IntVal(FALSE, <<>>), IntVal(FALSE, <<1>>), IntVal(TRUE, <<1>>), IntVal(FALSE, Pow2(80))>>
I(n) == IntVal(FALSE, <<n>>)
Fl(v, n) == [name |-> TextTok(n), val |-> v]
Values ==
  NullCatalogue \o BoolCatalogue \o WidthInts
  \o << FloatCatalogue[3], FloatCatalogue[13], FloatCatalogue[14], FloatCatalogue[15], FloatCatalogue[5], FloatCatalogue[9], FloatCatalogue[11],
        FloatCatalogue[1], FloatCatalogue[6] >>
  \o << DecCatalogue[3], DecCatalogue[40], TsCatalogue[1], TsCatalogue[8], TsCatalogue[5] >>
  \o << Val("string", <<>>, <<>>), Val("string", <<>>, <<104, 105>>), Val("string", <<>>, <<49, 50>>),
        Val("symbol", <<>>, TextTok(<<115, 121>>)), Val("symbol", <<>>, SidTok(0)), Val("symbol", <<>>, TextTok(<<>>)),
        Val("blob", <<>>, <<>>), Val("blob", <<>>, <<1, 2, 3>>), Val("clob", <<>>, <<97, 98, 99, 100, 101>>), Val("blob", <<>>, <<1, 2, 3, 4>>) >>
  \o << Val("list", <<>>, <<>>), Val("list", <<>>, <<I(1), I(2)>>), Val("list", <<>>, <<I(1), I(2), I(3), I(4), I(5)>>),
        Val("sexp", <<>>, <<I(1), Val("string", <<>>, <<120>>)>>), Val("list", <<>>, <<Val("string", <<>>, <<97>>), Val("string", <<>>, <<98>>)>>),
        Val("list", <<>>, <<I(1), NullVal("int", <<>>), IntVal(FALSE, <<1, 44>>)>>), Val("list", <<>>, <<Val("list", <<>>, <<I(1)>>)>>) >>
  \o << Val("struct", <<>>, <<>>), Val("struct", <<>>, <<Fl(I(1), <<88>>), Fl(Val("string", <<>>, <<121>>), <<119, 104, 121>>)>>),
        Val("struct", <<>>, <<Fl(I(1), <<120>>), Fl(I(2), <<88>>), Fl(I(3), <<98, 111, 103, 117, 115>>)>>),
        Val("struct", <<>>, <<Fl(I(1), <<88>>), Fl(I(2), <<88>>)>>),
        Val("struct", <<>>, <<Fl(Val("string", <<>>, <<122>>), <<88>>)>>),
        Val("struct", <<>>, <<Fl(I(7), <<97>>), Fl(I(8), <<98>>)>>),
        Val("struct", <<>>, <<[name |-> SidTok(0), val |-> I(1)], Fl(I(2), <<88>>)>>) >>
  \o << Annotated(I(5), <<TextTok(<<97>>)>>), Annotated(Val("string", <<>>, <<115>>), <<TextTok(<<97>>), TextTok(<<98>>)>>),
        Annotated(Val("list", <<>>, <<Val("string", <<>>, <<120>>)>>), <<TextTok(<<97>>)>>), Annotated(NullVal("int", <<>>), <<TextTok(<<97>>)>>),
        Annotated(Val("struct", <<>>, <<Fl(I(1), <<88>>)>>), <<TextTok(<<97>>)>>) >>

Docs == FlattenSeq([i \in 1..Len(Values) |->
          << [v |-> Values[i], fmt |-> "text", bytes |-> SpellForest(<<Values[i]>>, <<1, 1, 1>>)],
             [v |-> Values[i], fmt |-> "binary", bytes |-> EncodeStream(<<Values[i]>>, <<1>>)] >>])
ASSUME ndJsonSerialize(OutFile, Docs)

\* streams of n values for the Decoder automaton (n values, one per call, in order, then ErrNoInput for ever)
Seqs == << <<>>, <<I(1)>>, <<I(1), Val("string", <<>>, <<97>>)>>, <<NullVal("null", <<>>), I(2), Val("list", <<>>, <<I(3)>>)>>,
           <<Val("struct", <<>>, <<Fl(I(1), <<97>>)>>), Val("bool", <<>>, TRUE), NullVal("struct", <<>>), FloatCatalogue[4]>> >>
StreamDocs == FlattenSeq([i \in 1..Len(Seqs) |->
          << [forest |-> Seqs[i], fmt |-> "text", bytes |-> SpellForest(Seqs[i], <<1, 1, 1>>)],
             [forest |-> Seqs[i], fmt |-> "binary", bytes |-> EncodeStream(Seqs[i], <<1>>)] >>])
ASSUME ndJsonSerialize(StreamOutFile, StreamDocs)
=============================================================================
