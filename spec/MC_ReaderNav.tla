---------------------------- MODULE MC_ReaderNav ----------------------------
(* Exhaustive instance of the Reader cursor: every navigation program up to MaxLen over            *)
(* {Next, StepIn, StepOut, WrongAcc} on every catalogue document (history in state = GEN).          *)
EXTENDS ReaderNav, NavDocs, TLC
CONSTANTS MaxLen

AllDocs == ForestDocs \o [i \in 1..Len(TextDocs) |-> TextDocForest(i)]
Ops == <<"Next", "StepIn", "StepOut", "WrongAcc">>

VARIABLES doc, s, hist, res
vars == <<doc, s, hist, res>>

Init == /\ doc \in 1..Len(AllDocs) /\ s = InitS /\ hist = <<>> /\ res = "ok"
Next == /\ Len(hist) < MaxLen
        /\ \E i \in 1..4 : LET r == Step(AllDocs[doc], s, Ops[i])
                           IN s' = r.s /\ res' = r.res /\ hist' = Append(hist, i) /\ doc' = doc
Spec == Init /\ [][Next]_vars

WellFormed == WellFormedS(AllDocs[doc], s)
\* a refused call changes nothing
RefusedChangesNothing == [][res' = "err" => s' = s]_vars
\* the cursor never leaves the document: a position that is ON a value is a value of the forest
OnMeansValue == s.on => Obs(AllDocs[doc], s).type \in Types
\* stepping out returns to the level it came from, just after the container
StepOutReturns == [][(hist' # hist /\ Ops[hist'[Len(hist')]] = "StepOut" /\ res' = "ok")
                       => (s'.path = SubSeq(s.path, 1, Len(s.path) - 1) /\ s'.idx = s.path[Len(s.path)] /\ ~s'.on)]_vars
=============================================================================
