----------------------------- MODULE Judge_Acc -----------------------------
(* JUDGE for C13: every accessor result on every case against spec/Numbers.tla. *)
EXTENDS Numbers, Json, TLC
CONSTANTS ObsFile, CaseFile, VerdictFile
Obs   == ndJsonDeserialize(ObsFile)       \* [idx, type, null, err, accs |-> Seq([acc, res, v])]
Cases == ndJsonDeserialize(CaseFile)
Verdict(o) ==
  LET v == Cases[o.idx].v
      bad == SelectSeq(o.accs, LAMBDA a : ~AccOK(v, a))
  IN [idx |-> o.idx,
      ok |-> o.err = "" /\ o.type = v.t /\ o.null = v.null /\ bad = <<>>,
      why |-> IF o.err # "" THEN "reader error"
              ELSE IF o.type # v.t \/ o.null # v.null THEN "type or nullness differs"
              ELSE IF bad # <<>> THEN bad[1].acc \o " returned " \o bad[1].res
              ELSE ""]
ASSUME ndJsonSerialize(VerdictFile, [i \in 1..Len(Obs) |-> Verdict(Obs[i])])
=============================================================================
