------------------------------ MODULE Calendar ------------------------------
(***************************************************************************)
(* Proleptic Gregorian calendar arithmetic for timestamps.                 *)
(***************************************************************************)
EXTENDS Integers, Sequences

IsLeap(y) == (y % 4 = 0 /\ y % 100 # 0) \/ y % 400 = 0
DaysIn(y, m) == IF m = 2 THEN (IF IsLeap(y) THEN 29 ELSE 28)
                ELSE IF m \in {4, 6, 9, 11} THEN 30 ELSE 31

ValidDate(y, m, d) == y >= 1 /\ y <= 9999 /\ m >= 1 /\ m <= 12 /\ d >= 1 /\ d <= DaysIn(y, m)

\* shift the wall-clock fields [y, mo, d, h, mi] by delta minutes (|delta| < 1440);
\* the result may leave 1..9999 (year 0 or 10000), which callers must handle.
AddMinutes(f, delta) ==
  LET tot  == f.h * 60 + f.mi + delta
      dayd == IF tot < 0 THEN -1 ELSE IF tot >= 1440 THEN 1 ELSE 0
      t2   == tot - dayd * 1440
      h2   == t2 \div 60
      mi2  == t2 % 60
  IN IF dayd = 0 THEN [f EXCEPT !.h = h2, !.mi = mi2]
     ELSE IF dayd = 1 THEN
          IF f.d < DaysIn(f.y, f.mo) THEN [f EXCEPT !.d = f.d + 1, !.h = h2, !.mi = mi2]
          ELSE IF f.mo < 12 THEN [f EXCEPT !.mo = f.mo + 1, !.d = 1, !.h = h2, !.mi = mi2]
          ELSE [f EXCEPT !.y = f.y + 1, !.mo = 1, !.d = 1, !.h = h2, !.mi = mi2]
     ELSE IF f.d > 1 THEN [f EXCEPT !.d = f.d - 1, !.h = h2, !.mi = mi2]
          ELSE IF f.mo > 1 THEN [f EXCEPT !.mo = f.mo - 1, !.d = DaysIn(f.y, f.mo - 1), !.h = h2, !.mi = mi2]
          ELSE [f EXCEPT !.y = f.y - 1, !.mo = 12, !.d = 31, !.h = h2, !.mi = mi2]
=============================================================================
