---------------------------- MODULE IonBinaryEnc ----------------------------
(***************************************************************************)
(* Ion 1.0 binary ENCODINGS: every representation freedom the format       *)
(* allows, resolved by a stream of naturals (choice stream).  Written from *)
(* the Ion binary specification, independently of the decoder in IonBinary *)
(* (the judge requires BinDecode(Encode(f)) ~ f for every generated case). *)
(*                                                                         *)
(*   EncodeStream(forest, st) = bytes : BVM, a local symbol table          *)
(*   defining every symbol text of the forest, then the values.            *)
(*                                                                         *)
(* Freedoms: inline length vs L=14 + VarUInt (also for short payloads),    *)
(* VarUInt over-padding, leading zero bytes in int magnitudes and symbol   *)
(* IDs, 0-byte +0e0, 4-byte floats when exact, NOP pads at every level     *)
(* (inside structs with a field id), sorted-struct form D1, repeated BVM.  *)
(***************************************************************************)
EXTENDS IonBinary

Rs(st, i) == st[((i - 1) % Len(st)) + 1]
Ch(st, i, n) == Rs(st, i) % n

(* ---- field encodings of small naturals ---- *)
RECURSIVE Groups7(_)
Groups7(n) == IF n < 128 THEN <<n>> ELSE Append(Groups7(n \div 128), n % 128)
\* VarUInt of n with `pad` redundant leading zero groups
EncVarUInt(n, pad) ==
  LET g == Zeros(pad) \o Groups7(n)
  IN [k \in 1..Len(g) |-> IF k = Len(g) THEN g[k] + 128 ELSE g[k]]
\* VarInt: sign in bit 6 of the first byte
EncVarInt(neg, n) ==
  LET g0 == Groups7(n)
      g  == IF g0[1] >= 64 THEN <<0>> \o g0 ELSE g0
      s  == [g EXCEPT ![1] = @ + (IF neg THEN 64 ELSE 0)]
  IN [k \in 1..Len(s) |-> IF k = Len(s) THEN s[k] + 128 ELSE s[k]]
\* Int field (sign-magnitude) of a BigNat magnitude
EncIntField(neg, mag) ==
  IF mag = <<>> THEN (IF neg THEN <<128>> ELSE <<>>)
  ELSE LET m == IF mag[1] >= 128 THEN <<0>> \o mag ELSE mag
       IN [m EXCEPT ![1] = @ + (IF neg THEN 128 ELSE 0)]

(* ---- type descriptor + length ---- *)
\* choice c: 0 = shortest form, 1 = L=14 with minimal VarUInt, 2 = L=14 with padded VarUInt
Header(T, len, c) ==
  IF len < 14 /\ c = 0 THEN <<T * 16 + len>>
  ELSE <<T * 16 + 14>> \o EncVarUInt(len, IF c = 2 THEN 1 ELSE 0)

(* ---- float64 -> float32 when exact (verified through the decoder's F32To64) ---- *)
F32Candidate(b) ==
  LET sign == b[1] \div 128
      e11  == (b[1] % 128) * 16 + b[2] \div 16
      bits == FlattenSeq([i \in 1..8 |-> Bits(b[i], 8)])
      m52  == SubSeq(bits, 13, 64)
  IN IF e11 = 2047 THEN PackBytes(<<sign>> \o Bits(255, 8) \o SubSeq(m52, 1, 23))
     ELSE IF e11 = 0 THEN PackBytes(<<sign>> \o Zeros(31))
     ELSE LET e == e11 - 1023
          IN IF e >= -126 /\ e <= 127 THEN PackBytes(<<sign>> \o Bits(e + 127, 8) \o SubSeq(m52, 1, 23))
             ELSE IF e >= -149 /\ e < -126 THEN
                  \* float32 subnormal: mantissa = (1.m52) shifted right by (-126 - e)
                  LET sh == -126 - e
                      full == <<1>> \o SubSeq(m52, 1, 23 - sh)
                  IN PackBytes(<<sign>> \o Zeros(8) \o Zeros(23 - Len(full)) \o full)
             ELSE <<0, 0, 0, 0>>
F32Exact(b) == ~IsNaNBits(b) /\ F32To64(F32Candidate(b)) = b

(* ---- symbol IDs ---- *)
IndexOf(seq, x) == SelectInSeq(seq, LAMBDA y : y = x)
\* syms: the local symbols (texts) declared by the stream's table, in order
SidOfTok(tok, syms) ==
  IF tok.k = "sid" THEN tok.sid
  ELSE LET loc == IndexOf(syms, tok.text)
       IN IF loc # 0 THEN 9 + loc ELSE IndexOf(SystemTexts, tok.text)

RECURSIVE TextsOf(_)
TokTexts(tok) == IF tok.k = "text" THEN <<tok.text>> ELSE <<>>
TextsOf(v) ==
  FlattenSeq([i \in 1..Len(v.ann) |-> TokTexts(v.ann[i])]) \o
  (IF v.null THEN <<>>
   ELSE IF v.t = "symbol" THEN TokTexts(v.v)
   ELSE IF v.t \in {"list", "sexp"} THEN FlattenSeq([i \in 1..Len(v.v) |-> TextsOf(v.v[i])])
   ELSE IF v.t = "struct" THEN FlattenSeq([i \in 1..Len(v.v) |-> TokTexts(v.v[i].name) \o TextsOf(v.v[i].val)])
   ELSE <<>>)

\* distinct texts in order of first occurrence; system texts are declared again only on request
Dedup(seq) == FoldLeft(LAMBDA acc, x : IF IndexOf(acc, x) # 0 THEN acc ELSE Append(acc, x), <<>>, seq)

(* ---- NOP pads ---- *)
NopPad(c) == CASE c = 0 -> <<0>>  [] c = 1 -> <<1, 255>>  [] c = 2 -> <<3, 0, 1, 2>>
               [] OTHER -> <<14, 143>> \o Zeros(15)            \* 0E 8F + 15 bytes

TypeCode == [t \in Types |->
  CASE t = "null" -> 0 [] t = "bool" -> 1 [] t = "int" -> 2 [] t = "float" -> 4 [] t = "decimal" -> 5
    [] t = "timestamp" -> 6 [] t = "symbol" -> 7 [] t = "string" -> 8 [] t = "clob" -> 9
    [] t = "blob" -> 10 [] t = "list" -> 11 [] t = "sexp" -> 12 [] t = "struct" -> 13]

(* ---- timestamps and decimals ---- *)
EncTimestampBody(ts) ==
  LET off == IF ~ts.known THEN <<192>> ELSE EncVarInt(ts.off < 0, IF ts.off < 0 THEN 0 - ts.off ELSE ts.off)
      y   == EncVarUInt(ts.y, 0)
      mo  == EncVarUInt(ts.mo, 0)   d == EncVarUInt(ts.d, 0)
      h   == EncVarUInt(ts.h, 0)    mi == EncVarUInt(ts.mi, 0)   s == EncVarUInt(ts.s, 0)
      fr  == EncVarInt(TRUE, Len(ts.frac)) \o EncIntField(FALSE, FromDec(ts.frac))
  IN CASE ts.prec = 1 -> off \o y
       [] ts.prec = 2 -> off \o y \o mo
       [] ts.prec = 3 -> off \o y \o mo \o d
       [] ts.prec = 4 -> off \o y \o mo \o d \o h \o mi
       [] ts.prec = 5 -> off \o y \o mo \o d \o h \o mi \o s
       [] ts.prec = 6 -> off \o y \o mo \o d \o h \o mi \o s \o fr

EncDecimalBody(d, c) ==
  IF d.exp = 0 /\ d.coef = <<>> /\ ~d.neg /\ c = 0 THEN <<>>          \* 0d0 may be empty
  ELSE EncVarInt(d.exp < 0, IF d.exp < 0 THEN 0 - d.exp ELSE d.exp) \o EncIntField(d.neg, d.coef)

(***************************************************************************)
(* Values.  Enc(v, syms, st, i) = [b |-> bytes, i |-> next stream index]   *)
(***************************************************************************)
RECURSIVE Enc(_, _, _, _), EncMembers(_, _, _, _, _)

\* members of a container, with optional NOP pads before each member and at the end
EncMembers(items, struct, syms, st, i) ==
  LET step(acc, k) ==
        LET it   == items[k]
            padc == Ch(st, acc.i, 12)                       \* 0..3 => a pad, else none
            pad  == IF padc < 4 THEN (IF struct THEN EncVarUInt(Ch(st, acc.i + 1, 10), 0) ELSE <<>>) \o NopPad(padc)
                    ELSE <<>>
            fid  == IF struct THEN EncVarUInt(SidOfTok(it.name, syms), Ch(st, acc.i + 2, 4) \div 3) ELSE <<>>
            r    == Enc(IF struct THEN it.val ELSE it, syms, st, acc.i + 3)
        IN [b |-> acc.b \o pad \o fid \o r.b, i |-> r.i]
      body == FoldLeft(step, [b |-> <<>>, i |-> i], [k \in 1..Len(items) |-> k])
      endc == Ch(st, body.i, 16)
      tail == IF endc < 2 THEN (IF struct THEN <<128>> ELSE <<>>) \o NopPad(endc) ELSE <<>>
  IN [b |-> body.b \o tail, i |-> body.i + 1]

FieldSidsAscending(items, syms) ==
  \A k \in 1..(Len(items) - 1) : SidOfTok(items[k].name, syms) < SidOfTok(items[k + 1].name, syms)

Enc(v, syms, st, i) ==
  LET lenc == IF Ch(st, i, 6) < 4 THEN 0 ELSE Ch(st, i, 6) - 3      \* 0 (x4), 1, 2
      T == TypeCode[v.t]
      plain ==
        IF v.null THEN [b |-> <<T * 16 + 15>>, i |-> i + 1]
        ELSE CASE v.t = "null" -> [b |-> <<15>>, i |-> i + 1]
          [] v.t = "bool" -> [b |-> <<IF v.v THEN 17 ELSE 16>>, i |-> i + 1]
          [] v.t = "int" ->
               LET zp == Ch(st, i + 1, 5) \div 3                        \* 0,0,0,1,1 leading zero bytes
                   mag == IF v.v.mag = <<>> /\ Ch(st, i + 1, 2) = 0 THEN <<>> ELSE Zeros(zp) \o v.v.mag
               IN [b |-> Header(IF v.v.neg THEN 3 ELSE 2, Len(mag), lenc) \o mag, i |-> i + 2]
          [] v.t = "float" ->
               LET c == Ch(st, i + 1, 3)
               IN IF v.v = PosZeroBits /\ c = 0 THEN [b |-> <<64>>, i |-> i + 2]
                  ELSE IF c < 2 /\ F32Exact(v.v) THEN [b |-> Header(4, 4, 0) \o F32Candidate(v.v), i |-> i + 2]
                  ELSE [b |-> Header(4, 8, 0) \o v.v, i |-> i + 2]
          [] v.t = "decimal" ->
               LET body == EncDecimalBody(v.v, Ch(st, i + 1, 2))
               IN [b |-> Header(5, Len(body), lenc) \o body, i |-> i + 2]
          [] v.t = "timestamp" ->
               LET body == EncTimestampBody(v.v)
               IN [b |-> Header(6, Len(body), lenc) \o body, i |-> i + 1]
          [] v.t = "symbol" ->
               LET sid == SidOfTok(v.v, syms)
                   zp  == Ch(st, i + 1, 5) \div 3
                   body == IF sid = 0 /\ Ch(st, i + 1, 2) = 0 THEN <<>> ELSE Zeros(zp) \o FromSmall(sid)
               IN [b |-> Header(7, Len(body), lenc) \o body, i |-> i + 2]
          [] v.t \in {"string", "clob", "blob"} -> [b |-> Header(T, Len(v.v), lenc) \o v.v, i |-> i + 1]
          [] v.t \in {"list", "sexp"} ->
               LET m == EncMembers(v.v, FALSE, syms, st, i + 1)
               IN [b |-> Header(T, Len(m.b), lenc) \o m.b, i |-> m.i]
          [] v.t = "struct" ->
               LET m == EncMembers(v.v, TRUE, syms, st, i + 2)
                   sorted == Ch(st, i + 1, 3) = 0 /\ v.v # <<>> /\ FieldSidsAscending(v.v, syms)
               IN IF sorted THEN [b |-> <<13 * 16 + 1>> \o EncVarUInt(Len(m.b), Ch(st, i + 1, 2)) \o m.b, i |-> m.i]
                  ELSE IF Len(m.b) = 1 /\ lenc = 0 THEN [b |-> Header(13, 1, 1) \o m.b, i |-> m.i]   \* L=1 means sorted
                  ELSE [b |-> Header(13, Len(m.b), lenc) \o m.b, i |-> m.i]
  IN IF v.ann = <<>> THEN plain
     ELSE LET sids == FlattenSeq([k \in 1..Len(v.ann) |->
                         EncVarUInt(SidOfTok(v.ann[k], syms), Ch(st, plain.i + k, 4) \div 3)])
              al   == EncVarUInt(Len(sids), Ch(st, plain.i, 4) \div 3)
              inner == al \o sids \o plain.b
          IN [b |-> Header(14, Len(inner), Ch(st, plain.i + 5, 5) \div 2 % 3) \o inner,
              i |-> plain.i + 6]

(***************************************************************************)
(* A whole stream                                                          *)
(***************************************************************************)
StringVal(t) == Val("string", <<>>, t)

EncodeStream(forest, st) ==
  LET texts  == Dedup(FlattenSeq([k \in 1..Len(forest) |-> TextsOf(forest[k])]))
      \* system texts need no declaration; declare them anyway now and then (shadowing is legal)
      syms   == SelectSeq(texts, LAMBDA t : IndexOf(SystemTexts, t) = 0)
      lst    == Val("struct", <<TextTok(T_ion_symbol_table)>>,
                    << [name |-> TextTok(T_symbols),
                        val |-> Val("list", <<>>, [k \in 1..Len(syms) |-> StringVal(syms[k])])] >>)
      pre    == IF Ch(st, 1, 4) = 0 THEN BVM \o BVM ELSE BVM
      tbl    == IF syms = <<>> /\ Ch(st, 2, 2) = 0 THEN [b |-> <<>>, i |-> 3] ELSE Enc(lst, <<>>, st, 3)
      step(acc, k) ==
        LET padc == Ch(st, acc.i, 10)
            pad  == IF padc < 3 THEN NopPad(padc) ELSE <<>>
            r    == Enc(forest[k], syms, st, acc.i + 1)
        IN [b |-> acc.b \o pad \o r.b, i |-> r.i]
      body   == FoldLeft(step, [b |-> <<>>, i |-> tbl.i], [k \in 1..Len(forest) |-> k])
      tailc  == Ch(st, body.i, 8)
  IN pre \o tbl.b \o body.b \o (IF tailc = 0 THEN NopPad(1) ELSE <<>>)

EncodePart(forest, lo, hi, syms, st, i0) ==
  FoldLeft(LAMBDA acc, k : LET r == Enc(forest[k], syms, st, acc.i) IN [b |-> acc.b \o r.b, i |-> r.i],
           [b |-> <<>>, i |-> i0], [k \in 1..(hi - lo + 1) |-> lo + k - 1])

\* The same values behind a table that first imports `pad` placeholder IDs (a shared table no catalogue has,
\* declared with max_id = pad): the local symbols get the IDs 10 + pad ..., which moves them across the one-,
\* two- and three-byte boundaries of symbol values (256, 65536) and of VarUInt field names and annotations
\* (128, 16384) without a table of that many symbols.
RECURSIVE Base256(_)
Base256(n) == IF n = 0 THEN <<>> ELSE Append(Base256(n \div 256), n % 256)
PadText(k) == <<1, 255, k % 256, (k \div 256) % 256, k \div 65536>>
T_padname == <<112, 97, 100>>
EncodeStreamPadded(forest, st, pad) ==
  LET texts == Dedup(FlattenSeq([k \in 1..Len(forest) |-> TextsOf(forest[k])]))
      syms  == SelectSeq(texts, LAMBDA t : IndexOf(SystemTexts, t) = 0)
      decl  == Val("struct", <<>>, << [name |-> TextTok(T_name), val |-> StringVal(T_padname)],
                                      [name |-> TextTok(T_version), val |-> Val("int", <<>>, [neg |-> FALSE, mag |-> <<1>>])],
                                      [name |-> TextTok(T_max_id), val |-> Val("int", <<>>, [neg |-> FALSE, mag |-> Base256(pad)])] >>)
      lst   == Val("struct", <<TextTok(T_ion_symbol_table)>>,
                   << [name |-> TextTok(T_imports), val |-> Val("list", <<>>, <<decl>>)],
                      [name |-> TextTok(T_symbols), val |-> Val("list", <<>>, [k \in 1..Len(syms) |-> StringVal(syms[k])])] >>)
      tbl   == Enc(lst, <<>>, st, 3)
      all   == [k \in 1..pad |-> PadText(k)] \o syms
      body  == EncodePart(forest, 1, Len(forest), all, st, tbl.i)
  IN BVM \o tbl.b \o body.b

\* The same values as a stream in two parts with a change of symbol context in between:
\*   0  an appending table (imports: $ion_symbol_table) declaring what the second part adds
\*   1  a version marker (context reset) and a fresh table, symbols in another order
\*   2  a replacing table without a version marker
\*   3  a version marker and then an APPENDING table (appends to the system table)
PartTable(appending, syms) ==
  Val("struct", <<TextTok(T_ion_symbol_table)>>,
      (IF appending THEN << [name |-> TextTok(T_imports), val |-> Val("symbol", <<>>, TextTok(T_ion_symbol_table))] >> ELSE <<>>)
      \o << [name |-> TextTok(T_symbols), val |-> Val("list", <<>>, [k \in 1..Len(syms) |-> StringVal(syms[k])])] >>)
PartTexts(forest, lo, hi) ==
  SelectSeq(Dedup(FlattenSeq([k \in 1..(hi - lo + 1) |-> TextsOf(forest[lo + k - 1])])), LAMBDA t : IndexOf(SystemTexts, t) = 0)
EncodeStreamParts(forest, st) ==
  LET n == Len(forest) IN
  IF n < 2 THEN EncodeStream(forest, st)
  ELSE LET cut  == 1 + Ch(st, 2, n - 1)
           how  == Ch(st, 1, 4)
           t1   == PartTexts(forest, 1, cut)
           t2   == PartTexts(forest, cut + 1, n)
           new2 == SelectSeq(t2, LAMBDA t : IndexOf(t1, t) = 0)
           tbl1 == Enc(PartTable(FALSE, t1), <<>>, st, 3)
           p1   == EncodePart(forest, 1, cut, t1, st, tbl1.i)
           syms2 == CASE how = 0 -> t1 \o new2  [] how = 1 -> Reverse(t2)  [] OTHER -> t2
           tbl2 == CASE how = 0 -> Enc(PartTable(TRUE, new2), <<>>, st, p1.i)
                     [] how = 1 -> Enc(PartTable(FALSE, Reverse(t2)), <<>>, st, p1.i)
                     [] how = 2 -> Enc(PartTable(FALSE, t2), <<>>, st, p1.i)
                     [] OTHER   -> Enc(PartTable(TRUE, t2), <<>>, st, p1.i)
           mark == IF how \in {1, 3} THEN BVM ELSE <<>>
           p2   == EncodePart(forest, cut + 1, n, syms2, st, tbl2.i)
       IN BVM \o tbl1.b \o p1.b \o mark \o tbl2.b \o p2.b
=============================================================================
