------------------------------ MODULE Numbers ------------------------------
(***************************************************************************)
(* Integer widths and the Reader accessor contract (C13).                  *)
(*                                                                         *)
(* An Ion int is [neg, mag] with mag a minimal big-endian byte sequence.   *)
(*   IntSizeRank: 1 = fits int32, 2 = fits int64, 3 = needs a big integer  *)
(* Accessor contract, from the Reader documentation:                       *)
(*   accessor of type T on a value of another type  -> "err"               *)
(*   accessor on a typed null of its own type       -> "nil"               *)
(*   IntValue / Int64Value: the value when it fits, else "err"             *)
(*   BigIntValue: always the exact value                                   *)
(*   IntSize: never a width too small (a larger one is permitted)          *)
(***************************************************************************)
EXTENDS IonData, BigNat

P31 == <<128, 0, 0, 0>>                       \* 2^31
P63 == <<128, 0, 0, 0, 0, 0, 0, 0>>           \* 2^63

FitsBits(iv, p) == IF iv.neg THEN Cmp(iv.mag, p) <= 0 ELSE Cmp(iv.mag, p) < 0
FitsInt32(iv) == FitsBits(iv, P31)
FitsInt64(iv) == FitsBits(iv, P63)
IntSizeRank(iv) == IF FitsInt32(iv) THEN 1 ELSE IF FitsInt64(iv) THEN 2 ELSE 3
RankOfName(n) == CASE n = "Int32" -> 1 [] n = "Int64" -> 2 [] n = "BigInt" -> 3 [] OTHER -> 0

Accessors == <<"BoolValue", "IntValue", "Int64Value", "BigIntValue", "FloatValue", "DecimalValue",
               "TimestampValue", "StringValue", "SymbolValue", "ByteValue">>
TypesOfAcc(a) ==
  CASE a = "BoolValue" -> {"bool"}
    [] a \in {"IntValue", "Int64Value", "BigIntValue", "IntSize"} -> {"int"}
    [] a = "FloatValue" -> {"float"}
    [] a = "DecimalValue" -> {"decimal"}
    [] a = "TimestampValue" -> {"timestamp"}
    [] a = "StringValue" -> {"string"}
    [] a = "SymbolValue" -> {"symbol"}
    [] a = "ByteValue" -> {"clob", "blob"}

\* what accessor a must return on value v:  "err" | "nil" | "val"
ExpClass(a, v) ==
  IF v.t \notin TypesOfAcc(a) THEN "err"
  ELSE IF v.null THEN "nil"
  ELSE IF a = "IntValue" /\ ~FitsInt32(v.v) THEN "err"
  ELSE IF a = "Int64Value" /\ ~FitsInt64(v.v) THEN "err"
  ELSE "val"

\* does the observed payload equal the value?
ValMatches(a, v, got) ==
  CASE v.t = "int"   -> got.neg = v.v.neg /\ got.mag = v.v.mag
    [] v.t = "float" -> CanonFloat(got) = CanonFloat(v.v)
    [] v.t = "decimal" -> got.neg = v.v.neg /\ got.coef = v.v.coef /\ got.exp = v.v.exp
    [] v.t = "symbol" -> TokEq(got, v.v)
    [] OTHER -> got = v.v

\* obs: [acc, res ("err"|"nil"|"val"|"panic"), v]
AccOK(v, obs) ==
  IF obs.acc = "IntSize" THEN
       IF v.t # "int" THEN obs.res = "err"
       ELSE IF v.null THEN obs.res = "val" /\ obs.v = "NullInt"
       ELSE obs.res = "val" /\ RankOfName(obs.v) >= IntSizeRank(v.v)
  ELSE LET c == ExpClass(obs.acc, v)
       IN /\ obs.res = c
          /\ (c = "val" => ValMatches(obs.acc, v, obs.v))
=============================================================================
