---------------------------- MODULE Gen_Timestamp ----------------------------
(***************************************************************************)
(* GEN for C15: timestamps over the boundary grid (every month start and   *)
(* end of leap and common years, year 1 and 9999 with offsets that carry   *)
(* the UTC fields to year 0 or 10000, times at the day boundaries, offsets *)
(* up to +-23:59, UTC / unknown / local, six precisions, 0..9 fraction     *)
(* digits with leading and trailing zeros), stream-sampled in the quick    *)
(* tier; spelled by the specification's printer; invalid literals; long    *)
(* fractions that must round to the nearest nanosecond.                    *)
(***************************************************************************)
EXTENDS IonTextEnc, IonBinaryEnc, Json, TLC
CONSTANTS StreamFile, OutFile, ForestFile, InvalidFile
Streams == ndJsonDeserialize(StreamFile)
R(st, i) == st[((i - 1) % Len(st)) + 1]
PickT(seq, r) == seq[(r % Len(seq)) + 1]

Years == <<1, 4, 100, 400, 1900, 1999, 2000, 2023, 2024, 9999>>
Times == << <<0, 0, 0>>, <<12, 34, 56>>, <<23, 59, 59>>, <<0, 0, 59>>, <<23, 59, 0>> >>
Offs  == <<-1439, -720, -60, -1, 0, 1, 60, 330, 720, 1439>>
FracPatterns == << <<0>>, <<1>>, <<9>>, <<0, 0>>, <<1, 0>>, <<0, 1>>, <<1, 0, 0>>, <<0, 0, 1>>, <<9, 9, 9>>, <<1, 2, 8>>, <<2, 5, 5>>,
                   <<0, 4, 0, 0, 0>>, <<1, 2, 3, 4, 5, 6>>, <<0, 0, 0, 0, 0, 0>>, <<9, 0, 0, 0, 0, 0, 0>>, <<0, 0, 8, 3, 8, 8, 6, 0, 8>>,
                   <<9, 9, 9, 9, 9, 9, 9, 9, 9>>, <<0, 0, 0, 0, 0, 0, 0, 0, 0>>, <<0, 0, 0, 0, 0, 0, 0, 0, 1>>, <<1, 0, 0, 0, 0, 0, 0, 0, 0>>,
                   <<0, 1, 6, 7, 7, 7, 2, 1, 5>>, <<1, 2, 3, 4, 5, 6, 7, 8>> >>

\* a timestamp given by LOCAL fields
Local(y, mo, d, h, mi, s, frac, off, known, prec) ==
  IF prec <= 3 THEN TsRec(y, IF prec >= 2 THEN mo ELSE 1, IF prec = 3 THEN d ELSE 1, 0, 0, 0, <<>>, 0, FALSE, prec)
  ELSE LET u == AddMinutes([y |-> y, mo |-> mo, d |-> d, h |-> h, mi |-> mi], IF known THEN 0 - off ELSE 0)
       IN TsRec(u.y, u.mo, u.d, u.h, u.mi, IF prec >= 5 THEN s ELSE 0, IF prec = 6 THEN frac ELSE <<>>,
                IF known THEN off ELSE 0, known, prec)

GridTs(st, i) ==
  LET y  == PickT(Years, R(st, i))
      mo == (R(st, i + 1) % 12) + 1
      d  == PickT(<<1, 2, DaysIn(y, mo)>>, R(st, i + 2))
      t  == PickT(Times, R(st, i + 3))
      off == PickT(Offs, R(st, i + 4))
      kind == R(st, i + 5) % 3                       \* 0 unknown offset, 1 UTC, 2 local
      prec == (R(st, i + 6) % 6) + 1
      frac == PickT(FracPatterns, R(st, i + 7))
  IN Local(y, mo, d, t[1], t[2], t[3], frac, IF kind = 2 THEN off ELSE 0, kind # 0, prec)

TsVal(ts) == Val("timestamp", <<>>, ts)
\* the corners of the year range, always generated: local year 1 / 9999 with an offset that carries the UTC fields
\* into year 0 / 10000 (valid: the range applies to the local fields), and the mirror cases that stay inside
CornerOffs == <<1, 59, 60, 1439>>
Corners == FlattenSeq(FlattenSeq([o \in 1..Len(CornerOffs) |-> [p3 \in 1..3 |-> LET prec == p3 + 3 IN
             << Local(1, 1, 1, 0, 0, 0, <<5>>, CornerOffs[o], TRUE, prec),
                Local(9999, 12, 31, 23, 59, 59, <<9, 9, 9>>, 0 - CornerOffs[o], TRUE, prec),
                Local(1, 1, 1, 0, 0, 0, <<0>>, 0 - CornerOffs[o], TRUE, prec),
                Local(9999, 12, 31, 23, 59, 59, <<1>>, CornerOffs[o], TRUE, prec) >>]]))
NC == Len(Corners)
Cases == [i \in 1..Len(Streams) |->
            LET ts == GridTs(Streams[i].s, 1)
            IN [ts |-> ts, spelling |-> SpellTimestamp(ts, Streams[i].s, 20)]]
         \o [i \in 1..NC |-> [ts |-> Corners[i], spelling |-> SpellTimestamp(Corners[i], Streams[(i % Len(Streams)) + 1].s, 20)]]
Forests == [i \in 1..(Len(Streams) \div 4) |->
              [kind |-> "timestamps", forest |-> [k \in 1..4 |-> TsVal(GridTs(Streams[4 * i - 4 + k].s, 1))]]]
           \o [i \in 1..(NC \div 4) |-> [kind |-> "timestamp-corners", forest |-> [k \in 1..4 |-> TsVal(Corners[4 * i - 4 + k])]]]

\* literals that must be rejected
T(str) == str
Invalid == <<
  <<50,48,48,48,45,49,51,45,48,49,84>>,                                          \* 2000-13-01T
  <<50,48,48,48,45,48,48,45,48,49,84>>,                                          \* 2000-00-01T
  <<50,48,48,48,45,48,50,45,51,48,84>>,                                          \* 2000-02-30T
  <<50,48,48,49,45,48,50,45,50,57,84>>,                                          \* 2001-02-29T
  <<49,57,48,48,45,48,50,45,50,57,84>>,                                          \* 1900-02-29T
  <<50,48,48,48,45,48,52,45,51,49,84>>,                                          \* 2000-04-31T
  <<50,48,48,48,45,48,49,45,48,48,84>>,                                          \* 2000-01-00T
  <<50,48,48,48,45,48,49,45,48,49,84,50,52,58,48,48,90>>,                        \* 2000-01-01T24:00Z
  <<50,48,48,48,45,48,49,45,48,49,84,48,48,58,54,48,90>>,                        \* 2000-01-01T00:60Z
  <<50,48,48,48,45,48,49,45,48,49,84,48,48,58,48,48,58,54,48,90>>,               \* 2000-01-01T00:00:60Z
  <<50,48,48,48,45,48,49,45,48,49,84,48,48,58,48,48,43,50,52,58,48,48>>,         \* 2000-01-01T00:00+24:00
  <<50,48,48,48,45,48,49,45,48,49,84,48,48,58,48,48,45,50,52,58,48,48>>,         \* 2000-01-01T00:00-24:00
  <<50,48,48,48,45,48,49,45,48,49,84,48,48,58,48,48,43,48,48,58,54,48>>,         \* 2000-01-01T00:00+00:60
  <<48,48,48,48,45,48,49,45,48,49,84>>,                                          \* 0000-01-01T
  <<48,48,48,48,84>>                                                             \* 0000T
>>

\* fractions finer than nanoseconds: [text, s, digits] - the seconds field and fraction digits of the literal
LongFrac(s, digits) == [text |-> <<50,48,48,49,45,48,50,45,48,51,84,48,52,58,48,53,58>> \o Pad2(s) \o <<46>> \o Digs(digits) \o <<90>>,
                        \* the same timestamp in binary: the fraction as exponent -n and an n-digit coefficient
                        bin |-> EncodeStream(<<TsVal(TsRec(2001, 2, 3, 4, 5, s, digits, 0, TRUE, 6))>>, <<0>>),
                        s |-> s, digits |-> digits]
LongFracs == << LongFrac(6, <<1,2,3,4,5,6,7,8,9,4>>), LongFrac(6, <<1,2,3,4,5,6,7,8,9,6>>), LongFrac(6, <<0,0,0,0,0,0,0,0,0,4>>),
                LongFrac(6, <<0,0,0,0,0,0,0,0,0,6>>), LongFrac(6, <<9,9,9,9,9,9,9,9,9,9,9>>), LongFrac(6, <<9,9,9,9,9,9,9,9,9,4>>),
                LongFrac(58, <<9,9,9,9,9,9,9,9,9,9>>), LongFrac(0, <<0,0,0,1,0,0,1,0,0,4,4>>), LongFrac(9, <<1,0,0,1,0,0,1,0,0,9,9,1>>),
                LongFrac(9, <<4,5,6,7,8,9,1,2,3,4,5,6,7,8,9,1,2,3,4,5,6>>), LongFrac(30, <<0,0,0,0,0,0,0,0,1,2,3,4,5,6,7,8,9,0,1,2,3,4,5,6>>) >>

ASSUME ndJsonSerialize(OutFile, Cases)
ASSUME ndJsonSerialize(ForestFile, Forests)
ASSUME ndJsonSerialize(InvalidFile, <<[invalid |-> Invalid, longfracs |-> LongFracs]>>)
=============================================================================
