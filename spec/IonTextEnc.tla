----------------------------- MODULE IonTextEnc -----------------------------
(***************************************************************************)
(* Ion 1.0 text SPELLINGS: every spelling freedom the text grammar allows, *)
(* resolved by a stream of naturals.  Written from the Ion text grammar,   *)
(* independently of the recogniser in IonText (every generated case must   *)
(* satisfy TextDecode(Spell(f)) ~ f, or the case is a machinery error).    *)
(*                                                                         *)
(* Freedoms: whitespace and both comment forms in every legal gap; radix   *)
(* and underscore forms of ints; d/D, point placement and exponent forms   *)
(* of decimals; e/E forms of floats (exact decimal expansion); short,      *)
(* long and concatenated long strings with every escape and line           *)
(* continuation; quoted, unquoted, operator and $n symbols; base64 with    *)
(* inner whitespace; short and long clobs; timestamp offset spellings;     *)
(* null / null.null; trailing commas; string field names.                  *)
(***************************************************************************)
EXTENDS IonText, FloatLiterals

Rt(st, i) == st[((i - 1) % Len(st)) + 1]
Ct(st, i, n) == Rt(st, i) % n

Cat(seqs) == FlattenSeq(seqs)
Dig(d) == IF d < 10 THEN 48 + d ELSE 87 + d            \* digit value -> lower-case character
DigU(d) == IF d < 10 THEN 48 + d ELSE 55 + d           \* upper-case hex
Digs(ds) == [k \in 1..Len(ds) |-> Dig(ds[k])]
DecOfSmall(n) == IF n = 0 THEN <<48>> ELSE Digs(ToDec(FromSmall(n)))
Pad2(n) == <<48 + (n \div 10), 48 + (n % 10)>>
Pad4(n) == <<48 + (n \div 1000), 48 + ((n \div 100) % 10), 48 + ((n \div 10) % 10), 48 + (n % 10)>>

(* ---- gaps: whitespace and comments ---- *)
\*  "", " ", TAB, LF, CR LF, "  ", " //c LF", "/*c*/", LF TAB
GapForms == << <<>>, <<32>>, <<9>>, <<10>>, <<13, 10>>, <<32, 32>>, <<32, 47, 47, 32, 93, 125, 41, 39, 34, 10>>,
               <<47, 42, 32, 93, 42, 125, 32, 42, 47>>, <<10, 9>>, <<13>> >>
\* a gap that may be empty
Gap(st, i) == IF Ct(st, i, 3) # 0 THEN <<>> ELSE GapForms[Ct(st, i + 1, Len(GapForms)) + 1]
\* a gap that separates two tokens (never empty)
Sep(st, i) == IF Ct(st, i, 3) # 0 THEN <<32>> ELSE GapForms[Ct(st, i + 1, Len(GapForms) - 1) + 2]
\* whitespace only (inside {{ }})
LobGap(st, i) == << <<>>, <<>>, <<32>>, <<10>>, <<9, 32>>, <<13, 10>> >>[Ct(st, i, 6) + 1]

(* ---- UTF-8 bytes -> code points ---- *)
RECURSIVE CodePoints(_, _)
CodePoints(bs, p) ==
  IF p > Len(bs) THEN <<>>
  ELSE LET b == bs[p]
       IN IF b < 128 THEN <<b>> \o CodePoints(bs, p + 1)
          ELSE IF b < 224 THEN <<(b - 192) * 64 + (bs[p + 1] - 128)>> \o CodePoints(bs, p + 2)
          ELSE IF b < 240 THEN <<(b - 224) * 4096 + (bs[p + 1] - 128) * 64 + (bs[p + 2] - 128)>> \o CodePoints(bs, p + 3)
          ELSE <<(b - 240) * 262144 + (bs[p + 1] - 128) * 4096 + (bs[p + 2] - 128) * 64 + (bs[p + 3] - 128)>>
               \o CodePoints(bs, p + 4)

HexN(v, n, up) == [k \in 1..n |-> LET d == (v \div (16 ^ (n - k))) % 16 IN IF up THEN DigU(d) ELSE Dig(d)]

NamedEsc(cp) == CASE cp = 0 -> 48 [] cp = 7 -> 97 [] cp = 8 -> 98 [] cp = 9 -> 116 [] cp = 10 -> 110
                  [] cp = 12 -> 102 [] cp = 13 -> 114 [] cp = 11 -> 118 [] cp = 34 -> 34 [] cp = 39 -> 39
                  [] cp = 63 -> 63 [] cp = 47 -> 47 [] cp = 92 -> 92 [] OTHER -> 0
HasNamedEsc(cp) == cp \in {0, 7, 8, 9, 10, 12, 13, 11, 34, 39, 63, 47, 92}

\* one code point inside quoted text delimited by q (34 or 39); long: inside '''...'''
\* c: choice 0..7
SpellCp(cp, q, long, c) ==
  LET mustEscape == \/ cp < 32 /\ ~(long /\ cp = 10) /\ cp \notin {9, 11, 12}
                    \/ cp = 92 \/ (cp = q /\ ~long) \/ (long /\ cp = 39)
                    \/ cp = 127
      raw == Utf8Encode(cp)
      u4  == <<92, 117>> \o HexN(cp, 4, c % 2 = 0)
      u8  == <<92, 85>> \o HexN(cp, 8, c % 2 = 1)
      x2  == <<92, 120>> \o HexN(cp, 2, c % 2 = 0)
      surr == LET v == cp - 65536
              IN <<92, 117>> \o HexN(55296 + (v \div 1024), 4, TRUE) \o <<92, 117>> \o HexN(56320 + (v % 1024), 4, FALSE)
      named == <<92, NamedEsc(cp)>>
  IN IF ~mustEscape /\ c < 5 THEN raw
     ELSE IF HasNamedEsc(cp) /\ c % 3 = 0 THEN named
     ELSE IF cp < 256 /\ c % 3 = 1 THEN x2
     ELSE IF cp < 65536 THEN (IF c % 2 = 0 THEN u4 ELSE u8)
     ELSE (IF c % 3 = 2 THEN surr ELSE u8)

\* quoted text body for code points cps
QuotedText(cps, q, long, st, i) ==
  Cat([k \in 1..Len(cps) |-> SpellCp(cps[k], q, long, Ct(st, i + k, 8))])

\* a string: short, long, or several long segments (with gaps, comments and line continuations between)
\* short == TRUE forces the "..." form (adjacent long strings in a sexp or at top level would concatenate)
SpellString(bytes, short, st, i) ==
  LET cps == CodePoints(bytes, 1)
      form == IF short THEN 0 ELSE Ct(st, i, 4)
      n == Len(cps)
  IN IF form < 2 THEN <<34>> \o QuotedText(cps, 34, FALSE, st, i + 1) \o <<34>>
     ELSE IF form = 2 \/ n < 2 THEN <<39, 39, 39>> \o QuotedText(cps, 39, TRUE, st, i + 1) \o <<39, 39, 39>>
     ELSE LET cut == 1 + Ct(st, i + 1, n - 1)
              a == SubSeq(cps, 1, cut)   b == SubSeq(cps, cut + 1, n)
              cont == IF Ct(st, i + 2, 3) = 0 THEN <<92, 10>> ELSE <<>>      \* line continuation inside a segment
          IN <<39, 39, 39>> \o QuotedText(a, 39, TRUE, st, i + 3) \o cont \o <<39, 39, 39>>
             \o Sep(st, i + 40) \o <<39, 39, 39>> \o QuotedText(b, 39, TRUE, st, i + 50) \o <<39, 39, 39>>

(* ---- symbols ---- *)
IsIdentText(t) == /\ t # <<>> /\ IsIdStart(t[1]) /\ (\A k \in 1..Len(t) : IsIdPart(t[k]))
                  /\ t \notin Keywords /\ SidOfIdent(t) = -1 /\ ~IsVersionMarkerShape(t)
IsOperatorText(t) == /\ t # <<>>
                     /\ (\A k \in 1..Len(t) : IsOp(t[k]))
                     /\ (\A j \in 1..(Len(t) - 1) : ~(t[j] = 47 /\ t[j + 1] \in {47, 42}))
                     /\ t[Len(t)] # 47                       \* a trailing / could open a comment with what follows

SystemSid(t) == SelectInSeq(SystemTexts, LAMBDA x : x = t)

\* a symbol token as a value / annotation / field name.  inSexp allows operator spelling.
SpellSymbolTok(tok, inSexp, asValue, st, i) ==
  IF tok.k = "sid" THEN <<36>> \o DecOfSmall(tok.sid)
  ELSE LET t == tok.text
           c == Ct(st, i, 6)
           quoted == <<39>> \o QuotedText(CodePoints(t, 1), 39, FALSE, st, i + 1) \o <<39>>
       IN IF SystemSid(t) # 0 /\ c = 5 THEN <<36>> \o DecOfSmall(SystemSid(t))         \* $4 for name
          ELSE IF IsIdentText(t) /\ c < 4 THEN t
          ELSE IF inSexp /\ asValue /\ IsOperatorText(t) /\ c < 4 THEN t
          ELSE quoted

(* ---- numbers ---- *)
\* digits with optional single underscores between them
Underscored(chars, st, i) ==
  Cat([k \in 1..Len(chars) |-> IF k > 1 /\ Ct(st, i + k, 5) = 0 THEN <<95, chars[k]>> ELSE <<chars[k]>>])

HexDigitsOf(mag) == LET all == Cat([k \in 1..Len(mag) |-> <<mag[k] \div 16, mag[k] % 16>>])
                        f == SelectInSeq(all, LAMBDA x : x # 0)
                    IN IF f = 0 THEN <<0>> ELSE SubSeq(all, f, Len(all))
BinDigitsOf(mag) == LET all == Cat([k \in 1..Len(mag) |-> Bits(mag[k], 8)])
                        f == SelectInSeq(all, LAMBDA x : x # 0)
                    IN IF f = 0 THEN <<0>> ELSE SubSeq(all, f, Len(all))
DecDigitsOf(mag) == IF mag = <<>> THEN <<0>> ELSE ToDec(mag)

SpellInt(iv, st, i) ==
  LET sign == IF iv.neg THEN <<45>> ELSE <<>>
      c == Ct(st, i, 6)
  IN IF c < 3 THEN sign \o Underscored(Digs(DecDigitsOf(iv.mag)), st, i + 1)
     ELSE IF c = 3 THEN sign \o <<48, 120>> \o Underscored(Digs(HexDigitsOf(iv.mag)), st, i + 1)
     ELSE IF c = 4 THEN sign \o <<48, 88>> \o Underscored([k \in 1..Len(HexDigitsOf(iv.mag)) |-> DigU(HexDigitsOf(iv.mag)[k])], st, i + 1)
     ELSE sign \o (IF Ct(st, i + 1, 2) = 0 THEN <<48, 98>> ELSE <<48, 66>>) \o Underscored(Digs(BinDigitsOf(iv.mag)), st, i + 2)

SpellExp(e, st, i) == (IF e < 0 THEN <<45>> ELSE IF Ct(st, i, 3) = 0 THEN <<43>> ELSE <<>>)
                      \o DecOfSmall(IF e < 0 THEN 0 - e ELSE e)

\* coefficient digits ds (no leading zeros unless the single digit 0) and exponent e as
\* <int part> [. <fraction>] [marker exponent]: the decimal point is placed k digits from the right
SpellCoefExp(neg, ds, e, marker, needMarker, st, i) ==
  LET n == Len(ds)
      k == IF ds = <<0>> THEN Ct(st, i, 3) ELSE Ct(st, i, n + 2)      \* fraction digits to show (may exceed n: leading zeros)
      kk == IF k > n + 1 THEN n + 1 ELSE k
      ip == IF kk >= n THEN <<0>> ELSE SubSeq(ds, 1, n - kk)
      fp == IF kk = 0 THEN <<>> ELSE IF kk >= n THEN Zeros(kk - n) \o ds ELSE SubSeq(ds, n - kk + 1, n)
      e2 == e + kk
      sign == IF neg THEN <<45>> ELSE <<>>
      point == IF kk > 0 \/ (Ct(st, i + 1, 2) = 0) THEN <<46>> ELSE <<>>
      showExp == needMarker \/ e2 # 0 \/ point = <<>> \/ Ct(st, i + 2, 3) = 0
  IN sign \o Underscored(Digs(ip), st, i + 3) \o point \o (IF fp = <<>> THEN <<>> ELSE Underscored(Digs(fp), st, i + 20))
     \o (IF showExp THEN <<marker>> \o SpellExp(e2, st, i + 40) ELSE <<>>)

SpellDecimal(d, st, i) ==
  SpellCoefExp(d.neg, DecDigitsOf(d.coef), d.exp, IF Ct(st, i, 2) = 0 THEN 100 ELSE 68, FALSE, st, i + 1)

\* exact decimal expansion of a finite float:  value = m * 2^q  (m odd or zero)
RECURSIVE Pow5(_)
Pow5(n) == IF n = 0 THEN <<1>> ELSE MulSmallAdd(Pow5(n - 1), 5, 0)
RECURSIVE Mul2(_, _)
Mul2(b, n) == IF n = 0 THEN b ELSE Mul2(MulSmallAdd(b, 2, 0), n - 1)

FloatParts(b) ==
  LET bits == Cat([k \in 1..8 |-> Bits(b[k], 8)])
      e11 == (b[1] % 128) * 16 + (b[2] \div 16)
      mant == IF e11 = 0 THEN SubSeq(bits, 13, 64) ELSE <<1>> \o SubSeq(bits, 13, 64)
      q == IF e11 = 0 THEN -1074 ELSE e11 - 1075
  IN [neg |-> b[1] >= 128, m |-> Strip(PackBytes(Zeros(8 * ((Len(mant) + 7) \div 8) - Len(mant)) \o mant)), q |-> q]

SpellFloat(b, st, i) ==
  IF IsNaNBits(b) THEN <<110, 97, 110>>
  ELSE IF b = <<127, 240, 0, 0, 0, 0, 0, 0>> THEN <<43, 105, 110, 102>>
  ELSE IF b = <<255, 240, 0, 0, 0, 0, 0, 0>> THEN <<45, 105, 110, 102>>
  ELSE LET p == FloatParts(b)
           marker == IF Ct(st, i, 2) = 0 THEN 101 ELSE 69
           lit == SelectInSeq(FloatLiteralTable, LAMBDA r : r.bits = [b EXCEPT ![1] = @ % 128])
       IN IF lit # 0 /\ (p.q > 64 \/ p.q < -160 \/ Ct(st, i, 3) = 0)
          THEN \* a shortest literal: any decimal within half an ulp denotes the float
               SpellCoefExp(p.neg, FloatLiteralTable[lit].digits, FloatLiteralTable[lit].exp, marker, TRUE, st, i + 1)
          ELSE IF p.m = <<>> THEN SpellCoefExp(p.neg, <<0>>, 0, marker, TRUE, st, i + 1)
          ELSE IF p.q >= 0 THEN SpellCoefExp(p.neg, ToDec(Mul2(p.m, p.q)), 0, marker, TRUE, st, i + 1)
          ELSE SpellCoefExp(p.neg, ToDec(Mul(p.m, Pow5(0 - p.q))), p.q, marker, TRUE, st, i + 1)

(* ---- timestamps ---- *)
SpellOffset(ts, st, i) ==
  IF ~ts.known THEN <<45, 48, 48, 58, 48, 48>>
  ELSE IF ts.off = 0 THEN (IF Ct(st, i, 2) = 0 THEN <<90>> ELSE <<43, 48, 48, 58, 48, 48>>)
  ELSE LET a == IF ts.off < 0 THEN 0 - ts.off ELSE ts.off
       IN <<IF ts.off < 0 THEN 45 ELSE 43>> \o Pad2(a \div 60) \o <<58>> \o Pad2(a % 60)

SpellTimestamp(ts, st, i) ==
  LET l == IF ts.prec >= 4 THEN AddMinutes([y |-> ts.y, mo |-> ts.mo, d |-> ts.d, h |-> ts.h, mi |-> ts.mi],
                                            IF ts.known THEN ts.off ELSE 0)
           ELSE [y |-> ts.y, mo |-> ts.mo, d |-> ts.d, h |-> 0, mi |-> 0]
      date == Pad4(l.y) \o <<45>> \o Pad2(l.mo) \o <<45>> \o Pad2(l.d)
      hm == <<84>> \o Pad2(l.h) \o <<58>> \o Pad2(l.mi)
  IN CASE ts.prec = 1 -> Pad4(l.y) \o <<84>>
       [] ts.prec = 2 -> Pad4(l.y) \o <<45>> \o Pad2(l.mo) \o <<84>>
       [] ts.prec = 3 -> date \o (IF Ct(st, i, 2) = 0 THEN <<84>> ELSE <<>>)
       [] ts.prec = 4 -> date \o hm \o SpellOffset(ts, st, i)
       [] ts.prec = 5 -> date \o hm \o <<58>> \o Pad2(ts.s) \o SpellOffset(ts, st, i)
       [] ts.prec = 6 -> date \o hm \o <<58>> \o Pad2(ts.s) \o <<46>> \o Digs(ts.frac) \o SpellOffset(ts, st, i)

(* ---- lobs ---- *)
B64Char(v) == IF v < 26 THEN 65 + v ELSE IF v < 52 THEN 71 + v ELSE IF v < 62 THEN v - 4 ELSE IF v = 62 THEN 43 ELSE 47
B64Encode(bs) ==
  LET n == Len(bs)
      quad(k) == LET a == bs[3 * k - 2]
                     b == IF 3 * k - 1 <= n THEN bs[3 * k - 1] ELSE 0
                     c == IF 3 * k <= n THEN bs[3 * k] ELSE 0
                 IN << B64Char(a \div 4), B64Char((a % 4) * 16 + (b \div 16)),
                       IF 3 * k - 1 <= n THEN B64Char((b % 16) * 4 + (c \div 64)) ELSE 61,
                       IF 3 * k <= n THEN B64Char(c % 64) ELSE 61 >>
  IN Cat([k \in 1..((n + 2) \div 3) |-> quad(k)])

SpellBlob(bs, st, i) ==
  LET chars == B64Encode(bs)
      inner == Cat([k \in 1..Len(chars) |-> IF Ct(st, i + k, 7) = 0 THEN <<32, chars[k]>> ELSE <<chars[k]>>])
  IN <<123, 123>> \o LobGap(st, i) \o inner \o LobGap(st, i + 1) \o <<125, 125>>

\* a clob byte inside quotes: raw when printable ASCII and not the quote or backslash, else escaped
SpellClobByte(b, q, long, c) ==
  LET mustEscape == \/ (b < 32 /\ ~(long /\ b = 10) /\ b \notin {9, 11, 12})
                    \/ b > 126 \/ b = 92 \/ (b = q /\ ~long) \/ (long /\ b = 39)
  IN IF ~mustEscape /\ c < 5 THEN <<b>>
     ELSE IF HasNamedEsc(b) /\ c % 2 = 0 THEN <<92, NamedEsc(b)>>
     ELSE <<92, 120>> \o HexN(b, 2, c % 3 = 0)

SpellClob(bs, st, i) ==
  LET form == Ct(st, i, 3)
      n == Len(bs)
      body(x, q, long, j) == Cat([k \in 1..Len(x) |-> SpellClobByte(x[k], q, long, Ct(st, j + k, 8))])
  IN IF form = 0 \/ n < 2 THEN
          <<123, 123>> \o LobGap(st, i + 1) \o <<34>> \o body(bs, 34, FALSE, i + 2) \o <<34>> \o LobGap(st, i + 2) \o <<125, 125>>
     ELSE IF form = 1 THEN
          <<123, 123>> \o LobGap(st, i + 1) \o <<39, 39, 39>> \o body(bs, 39, TRUE, i + 2) \o <<39, 39, 39>> \o LobGap(st, i + 2) \o <<125, 125>>
     ELSE LET cut == 1 + Ct(st, i + 3, n - 1)
          IN <<123, 123>> \o LobGap(st, i + 1) \o <<39, 39, 39>> \o body(SubSeq(bs, 1, cut), 39, TRUE, i + 4) \o <<39, 39, 39>>
             \o <<32>> \o LobGap(st, i + 5) \o <<39, 39, 39>> \o body(SubSeq(bs, cut + 1, n), 39, TRUE, i + 60) \o <<39, 39, 39>>
             \o LobGap(st, i + 2) \o <<125, 125>>

(***************************************************************************)
(* Values.  Spell(v, where, st, i) = [b |-> bytes, i |-> next index]       *)
(* where = "top" | "sexp" (whitespace-separated sequences) | "other"       *)
(***************************************************************************)
RECURSIVE Spell(_, _, _, _)

SpellAnn(anns, st, i) ==
  Cat([k \in 1..Len(anns) |->
        SpellSymbolTok(anns[k], FALSE, FALSE, st, i + 20 * k) \o Gap(st, i + 20 * k + 15) \o <<58, 58>> \o Gap(st, i + 20 * k + 17)])

SpellFieldName(tok, st, i) ==
  IF tok.k = "text" /\ Ct(st, i, 5) = 0 THEN SpellString(tok.text, FALSE, st, i + 1)      \* string or long string as field name
  ELSE SpellSymbolTok(tok, FALSE, FALSE, st, i + 1)

Spell(v, where, st, i) ==
  LET ann == SpellAnn(v.ann, st, i)
      j == i + 20 * Len(v.ann) + 20
      body ==
        IF v.null THEN
           [b |-> IF v.t = "null" /\ Ct(st, j, 2) = 0 THEN K_null ELSE K_null \o <<46>> \o TypeNameBytes[v.t], i |-> j + 1]
        ELSE CASE v.t = "null" -> [b |-> K_null, i |-> j + 1]
          [] v.t = "bool" -> [b |-> IF v.v THEN K_true ELSE K_false, i |-> j + 1]
          [] v.t = "int" -> [b |-> SpellInt(v.v, st, j), i |-> j + 80]
          [] v.t = "float" -> [b |-> SpellFloat(v.v, st, j), i |-> j + 80]
          [] v.t = "decimal" -> [b |-> SpellDecimal(v.v, st, j), i |-> j + 80]
          [] v.t = "timestamp" -> [b |-> SpellTimestamp(v.v, st, j), i |-> j + 2]
          [] v.t = "symbol" -> [b |-> SpellSymbolTok(v.v, where = "sexp" /\ v.ann = <<>>, TRUE, st, j), i |-> j + 40]
          [] v.t = "string" -> [b |-> SpellString(v.v, where # "other", st, j), i |-> j + 90]
          [] v.t = "blob" -> [b |-> SpellBlob(v.v, st, j), i |-> j + 40]
          [] v.t = "clob" -> [b |-> SpellClob(v.v, st, j), i |-> j + 90]
          [] v.t = "list" ->
               LET step(acc, k) == LET r == Spell(v.v[k], "other", st, acc.i + 4)
                                   IN [b |-> acc.b \o (IF k > 1 THEN <<44>> ELSE <<>>) \o Gap(st, acc.i) \o r.b \o Gap(st, acc.i + 2), i |-> r.i]
                   m == FoldLeft(step, [b |-> <<>>, i |-> j + 1], [k \in 1..Len(v.v) |-> k])
                   tail == IF v.v # <<>> /\ Ct(st, j, 4) = 0 THEN <<44>> \o Gap(st, j + 1) ELSE <<>>
               IN [b |-> <<91>> \o (IF v.v = <<>> THEN Gap(st, j) ELSE <<>>) \o m.b \o tail \o <<93>>, i |-> m.i]
          [] v.t = "sexp" ->
               LET step(acc, k) == LET r == Spell(v.v[k], "sexp", st, acc.i + 4)
                                   \* inside a sexp a separator starts with whitespace: an operator symbol directly
                                   \* followed by a comment opener (+/* or -//) has no agreed reading
                                   IN [b |-> acc.b \o (IF k > 1 THEN <<32>> \o Gap(st, acc.i) ELSE Gap(st, acc.i)) \o r.b, i |-> r.i]
                   m == FoldLeft(step, [b |-> <<>>, i |-> j + 1], [k \in 1..Len(v.v) |-> k])
               IN [b |-> <<40>> \o m.b \o (IF v.v = <<>> THEN Gap(st, j) ELSE LobGap(st, j)) \o <<41>>, i |-> m.i]
          [] v.t = "struct" ->
               LET step(acc, k) ==
                     LET f == v.v[k]
                         r == Spell(f.val, "other", st, acc.i + 120)
                     IN [b |-> acc.b \o (IF k > 1 THEN <<44>> ELSE <<>>) \o Gap(st, acc.i) \o SpellFieldName(f.name, st, acc.i + 2)
                                \o Gap(st, acc.i + 100) \o <<58>> \o Gap(st, acc.i + 102) \o r.b \o Gap(st, acc.i + 104), i |-> r.i]
                   m == FoldLeft(step, [b |-> <<>>, i |-> j + 1], [k \in 1..Len(v.v) |-> k])
                   tail == IF v.v # <<>> /\ Ct(st, j, 4) = 0 THEN <<44>> \o Gap(st, j + 1) ELSE <<>>
               IN [b |-> <<123>> \o (IF v.v = <<>> THEN LobGap(st, j) ELSE <<>>) \o m.b \o tail \o <<125>>, i |-> m.i]
  IN [b |-> ann \o body.b, i |-> body.i]

\* does the spelling of v end / start with a character that needs a separator before the next value?
SpellForest(forest, st) ==
  LET step(acc, k) == LET r == Spell(forest[k], "top", st, acc.i + 4)
                      IN [b |-> acc.b \o (IF k > 1 THEN Sep(st, acc.i) ELSE Gap(st, acc.i)) \o r.b, i |-> r.i]
      m == FoldLeft(step, [b |-> <<>>, i |-> 1], [k \in 1..Len(forest) |-> k])
  IN m.b \o Gap(st, m.i)
=============================================================================
