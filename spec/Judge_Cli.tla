------------------------------ MODULE Judge_Cli ------------------------------
(* JUDGE for C20: one observation per (document, output format, input mode) run of the built ion-go binary. *)
EXTENDS Cli, Json, TLC
CONSTANTS ObsFile, CaseFile, VerdictFile
Obs   == ndJsonDeserialize(ObsFile)     \* [idx, doc, fmt, stdin, out, report, crashed, status]
Cases == ndJsonDeserialize(CaseFile)    \* [expect, forest, bytes, infmt]

ReportOK(rep) == LET d == TextDecode(rep)
                 IN d.ok /\ d.forest # <<>> /\ \A i \in 1..Len(d.forest) :
                       d.forest[i].t = "struct" /\ \E j \in 1..Len(d.forest[i].v) :
                           d.forest[i].v[j].name.k = "text" /\ d.forest[i].v[j].name.text = <<101,114,114,111,114,95,116,121,112,101>>
Why(o) ==
  LET c == Cases[o.doc]
  IN IF o.crashed THEN "the process panicked or died"
     ELSE IF c.expect = "reject" THEN (IF ReportOK(o.report) THEN "ok" ELSE "invalid input but no error report entry")
     ELSE IF o.report # <<>> THEN "valid input but an error was reported"
     ELSE IF o.fmt = "none" THEN (IF o.out = <<>> THEN "ok" ELSE "format none wrote output")
     ELSE IF o.fmt = "events" THEN EventsOK(o.out, c.forest)
     ELSE LET d == IF o.fmt = "binary" THEN (IF o.out = <<>> THEN [ok |-> TRUE, forest |-> <<>>] ELSE BinDecode(o.out, <<>>)) ELSE TextDecode(o.out)
          IN IF ~d.ok THEN "output is not valid Ion: " \o d.why
             ELSE IF ~ForestEquiv(d.forest, c.forest) THEN "output denotes other values than the input"
             ELSE "ok"
ASSUME ndJsonSerialize(VerdictFile, [i \in 1..Len(Obs) |-> [idx |-> Obs[i].idx, why |-> Why(Obs[i])]])
=============================================================================
