----------------------------- MODULE Gen_TextEnc -----------------------------
(* GEN for C02: forests (slot cases x SlotReps choice streams, then random forests) each rendered by *)
(* the specification's text printer under a stream of spelling choices.                              *)
EXTENDS Catalogue, IonTextEnc, Json, TLC
CONSTANTS StreamFile, OutFile, SlotReps
Streams == ndJsonDeserialize(StreamFile)     \* each: [s |-> forest stream, c |-> choice stream]

\* The exact decimal expansion of a float with a large binary exponent runs to hundreds of digits, which
\* TLC computes slowly; floats outside the literal table are therefore brought into a moderate exponent
\* range (sign and mantissa kept), so that every float still has a spelling computed by the specification.
InTable(b) == SelectInSeq(FloatLiteralTable, LAMBDA r : r.bits = [b EXCEPT ![1] = @ % 128]) # 0
ModerateBits(b) == IF InTable(b) \/ IsNaNBits(b) \/ (b[1] % 128 = 127 /\ b[2] >= 240) THEN b
                   ELSE LET e11 == (b[1] % 128) * 16 + (b[2] \div 16)
                        IN IF e11 >= 963 /\ e11 <= 1087 THEN b
                           ELSE [b EXCEPT ![1] = (IF @ >= 128 THEN 128 ELSE 0) + 63 + (b[3] % 2)]
RECURSIVE Moderate(_)
Moderate(v) == IF v.null THEN v
               ELSE IF v.t = "float" THEN [v EXCEPT !.v = ModerateBits(@)]
               ELSE IF v.t \in {"list", "sexp"} THEN [v EXCEPT !.v = [k \in 1..Len(@) |-> Moderate(@[k])]]
               ELSE IF v.t = "struct" THEN [v EXCEPT !.v = [k \in 1..Len(@) |-> [name |-> @[k].name, val |-> Moderate(@[k].val)]]]
               ELSE v
ModerateForest(f) == [k \in 1..Len(f) |-> Moderate(f[k])]
NS == Len(Streams)
SlotT == FlattenSeq([i \in 1..Len(SlotCases) |->
           [r \in 1..SlotReps |->
              LET c == Streams[((i * SlotReps + r) % NS) + 1].c
                  f == ModerateForest(SlotCases[i])
              IN [kind |-> "slot", forest |-> f, bytes |-> SpellForest(f, c)]]])
Rand == [i \in 1..NS |-> LET f == ModerateForest(GenForest(Streams[i].s))
                         IN [kind |-> "random", forest |-> f, bytes |-> SpellForest(f, Streams[i].c)]]
ASSUME ndJsonSerialize(OutFile, SlotT \o Rand)
=============================================================================
