--------------------------- MODULE Judge_Unmarshal ---------------------------
(***************************************************************************)
(* JUDGE for C17.  For every (Ion value, Go target type): no panic, and    *)
(* either an error or a stored Go value that REPRESENTS the Ion value      *)
(* under the documented mapping - never a wrapped, truncated or zeroed     *)
(* one.  "Represents" is checked through spec/Marshal.tla: the stored      *)
(* value, mapped back by ToIon, must be the Ion value again, up to the     *)
(* documented coercions (symbol <-> string text, clob <-> blob bytes,      *)
(* sexp <-> list, null -> zero value / nil, annotations dropped unless the *)
(* target keeps them, float into Decimal, width of the Go type).           *)
(* Integers and floats must match exactly or be refused.                   *)
(***************************************************************************)
EXTENDS Marshal, Json
CONSTANTS ObsFile, CaseFile, VerdictFile
Obs   == ndJsonDeserialize(ObsFile)
Cases == ndJsonDeserialize(CaseFile)

ResWhy(r, v) ==
  IF r.panic # "" THEN "panic"
  ELSE IF r.err # "" THEN "ok"          \* refusing is always allowed
  ELSE IF Faithful(r.gv, v) THEN "ok"
  ELSE "stored a value that does not represent the Ion value"

Bad(o) == LET v == Cases[o.idx].v IN SelectSeq(o.res, LAMBDA r : ResWhy(r, v) # "ok")
Verdict(o) == LET b == Bad(o)
              IN [idx |-> o.idx, why |-> IF b = <<>> THEN "ok" ELSE ResWhy(b[1], Cases[o.idx].v), target |-> IF b = <<>> THEN "" ELSE b[1].type,
                  nbad |-> Len(b)]
ASSUME ndJsonSerialize(VerdictFile, [i \in 1..Len(Obs) |-> Verdict(Obs[i])])
=============================================================================
