------------------------------- MODULE SymTab -------------------------------
(***************************************************************************)
(* The Ion symbol-ID space.                                                *)
(*                                                                         *)
(* A slot is [def |-> BOOLEAN, text |-> bytes]; a context (local symbol    *)
(* table as a reader or writer sees it) is the sequence of slots for IDs   *)
(* 1..MaxID:  system symbols (1..9)  ++  every import padded or truncated  *)
(* to exactly its declared max_id  ++  local symbols.  ID 0 ($0) is always *)
(* valid and has no text.                                                  *)
(***************************************************************************)
EXTENDS IonData

Slot(t) == [def |-> TRUE, text |-> t]
Undef   == [def |-> FALSE, text |-> <<>>]

SystemSlots == [i \in 1..9 |-> Slot(SystemTexts[i])]

\* a shared table's symbols adjusted to exactly max slots
PadTrunc(syms, max) == [i \in 1..max |-> IF i <= Len(syms) THEN syms[i] ELSE Undef]

RECURSIVE ConcatAll(_)
ConcatAll(ss) == IF ss = <<>> THEN <<>> ELSE Head(ss) \o ConcatAll(Tail(ss))

\* imps: Seq([syms |-> Seq(Slot), max |-> Nat])   locals: Seq(Slot)
Slots(imps, locals) ==
  SystemSlots \o ConcatAll([i \in 1..Len(imps) |-> PadTrunc(imps[i].syms, imps[i].max)]) \o locals

MaxID(ctx) == Len(ctx)

ValidSid(ctx, n) == n >= 0 /\ n <= Len(ctx)

HasText(ctx, n) == n >= 1 /\ n <= Len(ctx) /\ ctx[n].def

\* the token a reader reports for symbol ID n under ctx (n must be valid)
Resolve(ctx, n) == IF HasText(ctx, n) THEN TextTok(ctx[n].text) ELSE SidTok(n)

Defines(ctx, t) == \E i \in 1..Len(ctx) : ctx[i].def /\ ctx[i].text = t

\* the least ID carrying text t (0 if none)
FindByName(ctx, t) ==
  IF Defines(ctx, t)
  THEN CHOOSE i \in 1..Len(ctx) : /\ ctx[i].def /\ ctx[i].text = t
                                  /\ \A j \in 1..(i-1) : ~(ctx[j].def /\ ctx[j].text = t)
  ELSE 0

\* builder: the ID for t, appending it when unknown
BuilderAdd(ctx, t) ==
  IF Defines(ctx, t) THEN [ctx |-> ctx, id |-> FindByName(ctx, t), added |-> FALSE]
  ELSE [ctx |-> Append(ctx, Slot(t)), id |-> Len(ctx) + 1, added |-> TRUE]

(***************************************************************************)
(* Laws (checked by MC_SymTab over all small tables)                       *)
(***************************************************************************)
LawRoundTrip(ctx) == \A i \in 1..Len(ctx) : ctx[i].def =>
                        LET id == FindByName(ctx, ctx[i].text)
                        IN id >= 1 /\ id <= i /\ ctx[id].text = ctx[i].text
LawSystem(ctx)    == Len(ctx) >= 9 /\ \A i \in 1..9 : ctx[i] = Slot(SystemTexts[i])
LawBuilderStable(ctx, t) == LET r == BuilderAdd(ctx, t)
                            IN /\ SubSeq(r.ctx, 1, Len(ctx)) = ctx
                               /\ r.ctx[r.id].text = t /\ r.ctx[r.id].def
                               /\ (r.added <=> ~Defines(ctx, t))
=============================================================================
