------------------------------ MODULE Judge_IO ------------------------------
(***************************************************************************)
(* JUDGE for C19.                                                          *)
(* Reader: IOEnv!ChunkIndependence - what a traversal returns (values and  *)
(* final error) is a function of the bytes alone: it must equal the        *)
(* observation of the same Reader given the bytes in one piece; and a      *)
(* source failure must end in a non-nil Err, never look like a clean end.  *)
(* Writer: with a failing sink some call up to Finish returns an error,    *)
(* every later call fails too (even if the sink recovered), and the bytes  *)
(* the sink accepted before its first failure are a prefix of the          *)
(* fault-free output.                                                      *)
(***************************************************************************)
EXTENDS IonData, SequencesExt, Json, TLC
CONSTANTS ObsFile, VerdictFile
Obs == ndJsonDeserialize(ObsFile)

SameObs(a, b) == /\ a.err = b.err /\ a.panic = b.panic /\ ForestEquiv(a.back, b.back)

ReaderWhy(o) ==
  IF o.got.panic # "" THEN "panic"
  ELSE IF o.failAt >= 0 THEN (IF o.got.err = "" THEN "the source failed but Err() is nil: looks like a clean end of data" ELSE "ok")
  ELSE IF ~SameObs(o.got, o.base) THEN
       (IF o.got.err # o.base.err THEN "final error differs from the one-piece run" ELSE "values differ from the one-piece run")
  ELSE "ok"

FirstErr(rs) == SelectInSeq(rs, LAMBDA r : r # "ok")
WriterWhy(o) ==
  LET fe == FirstErr(o.results)
  IN IF \E i \in 1..Len(o.results) : o.results[i] = "panic" THEN "panic"
     ELSE IF ~IsPrefix(o.accepted, o.clean) THEN "bytes accepted before the failure are not a prefix of the fault-free output"
     ELSE IF ~o.faulted THEN (IF fe = 0 /\ o.accepted = o.clean THEN "ok" ELSE "calls failed although the sink never failed")
     ELSE IF fe = 0 \/ fe > o.finishAt THEN "the sink failed but no call up to and including Finish returned an error"
     ELSE IF \E j \in fe..Len(o.results) : o.results[j] = "ok" THEN "a call after the first error succeeded"
     ELSE "ok"

Verdict(o) == [idx |-> o.idx, why |-> IF o.kind = "reader" THEN ReaderWhy(o) ELSE WriterWhy(o)]
ASSUME ndJsonSerialize(VerdictFile, [i \in 1..Len(Obs) |-> Verdict(Obs[i])])
=============================================================================
