---------------------------- MODULE Judge_SymWrite ----------------------------
(***************************************************************************)
(* JUDGE for C11.                                                          *)
(* shared: the output declares exactly the writer's shared tables as       *)
(*   imports (name, version, max_id, in order), defines locally only text  *)
(*   that no import (and no system symbol) carries, without duplicates and *)
(*   only text that is used, and a Reader holding the tables recovers all  *)
(*   text (the specification's decoder with that catalogue).               *)
(* fixed: text in the table is written and recovered; text outside the     *)
(*   table makes the writer fail (some call or Finish returns an error).   *)
(***************************************************************************)
EXTENDS IonBinaryEnc, Json, TLC
CONSTANTS ObsFile, CaseFile, VerdictFile
Obs   == ndJsonDeserialize(ObsFile)       \* [idx, werr, wpanic, out]
Cases == ndJsonDeserialize(CaseFile)

MaxIdOf(s) == IF s.adj = -1 THEN Len(s.syms) ELSE s.adj
TextSlots(ts) == [i \in 1..Len(ts) |-> Slot(ts[i])]
CatOf(c) == [i \in 1..Len(c.imports) |-> [name |-> c.imports[i].name, version |-> c.imports[i].version,
                                           syms |-> PadTrunc(TextSlots(c.imports[i].syms), MaxIdOf(c.imports[i]))]]
CtxOf(c) == Slots([i \in 1..Len(c.imports) |-> [syms |-> TextSlots(c.imports[i].syms), max |-> MaxIdOf(c.imports[i])]],
                  TextSlots(c.locals))
ImportCtx(c) == Slots([i \in 1..Len(c.imports) |-> [syms |-> TextSlots(c.imports[i].syms), max |-> MaxIdOf(c.imports[i])]], <<>>)
UsedTexts(c) == Dedup(FlattenSeq([k \in 1..Len(c.forest) |-> TextsOf(c.forest[k])]))

FieldOf(v, t) == SelectSeq(v.v, LAMBDA f : f.name.k = "text" /\ f.name.text = t)
IsInt(v, n) == v.t = "int" /\ ~v.null /\ ~v.v.neg /\ ToSmall(v.v.mag) = n
IsStrV(v, t) == v.t = "string" /\ ~v.null /\ v.v = t

ImportsDeclared(lst, c) ==
  LET f == FieldOf(lst, T_imports)
  IN /\ Len(f) = 1 /\ f[1].val.t = "list" /\ ~f[1].val.null /\ Len(f[1].val.v) = Len(c.imports)
     /\ \A i \in 1..Len(c.imports) :
          LET d == f[1].val.v[i]
          IN /\ d.t = "struct" /\ ~d.null
             /\ Len(FieldOf(d, T_name)) = 1 /\ IsStrV(FieldOf(d, T_name)[1].val, c.imports[i].name)
             /\ Len(FieldOf(d, T_version)) = 1 /\ IsInt(FieldOf(d, T_version)[1].val, c.imports[i].version)
             /\ Len(FieldOf(d, T_max_id)) = 1 /\ IsInt(FieldOf(d, T_max_id)[1].val, MaxIdOf(c.imports[i]))

LocalsMinimal(lst, c) ==
  LET f == FieldOf(lst, T_symbols)
      syms == IF f = <<>> THEN <<>> ELSE f[1].val.v
      used == UsedTexts(c)
  IN /\ Len(f) <= 1
     /\ (f # <<>> => f[1].val.t = "list" /\ ~f[1].val.null)
     /\ \A i \in 1..Len(syms) :
          /\ syms[i].t = "string" /\ ~syms[i].null
          /\ ~Defines(ImportCtx(c), syms[i].v)                          \* not redundant with an import or system symbol
          /\ IndexOf(used, syms[i].v) # 0                                \* actually used
          /\ \A j \in 1..(i - 1) : syms[j].v # syms[i].v                 \* no duplicates

SharedVerdict(o, c) ==
  IF o.wpanic # "" THEN "panic"
  ELSE IF o.werr # "" THEN "writer refused values it can represent"
  ELSE LET d == BinDecode(o.out, CatOf(c))
       IN IF ~d.ok THEN "rejected: " \o d.why
          ELSE IF ~ForestEquiv(d.forest, c.forest) THEN "a Reader holding the shared tables recovers other values"
          ELSE IF Len(d.lsts) # (IF c.split > 0 THEN 2 ELSE 1) THEN "output does not hold exactly one local symbol table per batch"
          ELSE IF \E k \in 1..Len(d.lsts) : ~ImportsDeclared(d.lsts[k], c) THEN "imports are not declared with name, version and max_id (in every batch)"
          ELSE IF \E k \in 1..Len(d.lsts) : ~LocalsMinimal(d.lsts[k], c) THEN "local symbols are redundant, duplicated or unused"
          ELSE "ok"

FixedVerdict(o, c) ==
  LET allIn == \A i \in 1..Len(UsedTexts(c)) : Defines(CtxOf(c), UsedTexts(c)[i])
  IN IF o.wpanic # "" THEN "panic"
     ELSE IF ~allIn THEN (IF o.werr # "" THEN "ok" ELSE "text outside the fixed table was written without an error")
     ELSE IF o.werr # "" THEN "writer refused text that the fixed table defines"
     ELSE LET d == BinDecode(o.out, CatOf(c))
          IN IF ~d.ok THEN "rejected: " \o d.why
             ELSE IF ~ForestEquiv(d.forest, c.forest) THEN "decodes to other values"
             ELSE "ok"

Verdict(o) == LET c == Cases[o.idx]
              IN [idx |-> o.idx, why |-> IF c.mode = "shared" THEN SharedVerdict(o, c) ELSE FixedVerdict(o, c)]
ASSUME ndJsonSerialize(VerdictFile, [i \in 1..Len(Obs) |-> Verdict(Obs[i])])
=============================================================================
