------------------------------ MODULE Marshal ------------------------------
(***************************************************************************)
(* The Go <-> Ion reflection mapping (C16, C17), transcribed from the      *)
(* Marshal / Unmarshal documentation (DESIGN.md Appendix E).               *)
(*                                                                         *)
(* A Go value arrives as a self-describing tree g (harness/gvalue.go):     *)
(*   g.k  bool int uint float string bytes slice array map ptr iface       *)
(*        struct timestamp decimal time bigint tokens                      *)
(* with widths, nil-ness and, for struct fields, the tag as written        *)
(* (name, omitempty, hint symbol|clob|sexp, annotations, embedded, skip).  *)
(* ToIon(g, hint) is the Ion value g must marshal to.                      *)
(***************************************************************************)
EXTENDS IonBinaryEnc, SequencesExt, TLC

Null0 == NullVal("null", <<>>)
StrBytes(s) == s            \* JSON strings never reach TLC: all text is byte sequences

\* emptiness as omitempty understands it
EmptyG(g) ==
  CASE g.k = "bool" -> ~g.b
    [] g.k \in {"int", "uint"} -> g.i.mag = <<>>
    [] g.k = "float" -> g.f \in {<<0, 0, 0, 0, 0, 0, 0, 0>>, <<128, 0, 0, 0, 0, 0, 0, 0>>}
    [] g.k = "string" -> g.s = <<>>
    [] g.k = "bytes" -> g.s = <<>>
    [] g.k = "tokens" -> g.toks = <<>>
    [] g.k \in {"slice", "array"} -> g.elems = <<>>
    [] g.k = "map" -> g.entries = <<>>
    [] g.k \in {"ptr", "iface"} -> g.nil
    [] OTHER -> FALSE

FieldName(f) == IF f.name = <<>> THEN f.go ELSE f.name

RECURSIVE ToIon(_, _), Flat(_)

\* the visible fields of a struct, embedded structs flattened (a nil embedded pointer contributes nothing)
Flat(g) ==
  FlattenSeq([i \in 1..Len(g.fields) |->
     LET f == g.fields[i]
     IN IF f.skip THEN <<>>
        ELSE IF f.embedded /\ f.name = <<>> /\ f.val.k = "struct" THEN Flat(f.val)
        ELSE IF f.embedded /\ f.name = <<>> /\ f.val.k = "ptr" /\ f.val.nil THEN <<>>
        ELSE IF f.embedded /\ f.name = <<>> /\ f.val.k = "ptr" /\ f.val.elems[1].k = "struct" THEN Flat(f.val.elems[1])
        ELSE <<f>>])

ToIon(g, hint) ==
  CASE g.k = "bool" -> Val("bool", <<>>, g.b)
    [] g.k \in {"int", "uint", "bigint"} -> Val("int", <<>>, [neg |-> g.i.neg, mag |-> g.i.mag])
    [] g.k = "float" -> Val("float", <<>>, g.f)
    [] g.k = "string" -> IF hint = "symbol" THEN Val("symbol", <<>>, TextTok(g.s)) ELSE Val("string", <<>>, g.s)
    [] g.k = "bytes" -> IF g.nil THEN Null0 ELSE Val(IF hint = "clob" THEN "clob" ELSE "blob", <<>>, g.s)
    [] g.k \in {"slice", "array"} ->
         IF g.k = "slice" /\ g.nil THEN Null0
         ELSE Val(IF hint = "sexp" THEN "sexp" ELSE "list", <<>>, [i \in 1..Len(g.elems) |-> ToIon(g.elems[i], hint)])
    [] g.k = "map" -> IF g.nil THEN Null0
                      ELSE Val("struct", <<>>, [i \in 1..Len(g.entries) |->
                                                  [name |-> TextTok(g.entries[i].key), val |-> ToIon(g.entries[i].val, hint)]])
    [] g.k \in {"ptr", "iface"} -> IF g.nil THEN Null0 ELSE ToIon(g.elems[1], hint)
    [] g.k \in {"timestamp", "time"} -> Val("timestamp", <<>>, g.ts)
    [] g.k = "decimal" -> Val("decimal", <<>>, g.dec)
    [] g.k = "struct" ->
         LET fs == Flat(g)
             annIdx == SelectInSeq(fs, LAMBDA f : f.ann)
         IN IF annIdx # 0 THEN
                 \* an annotation wrapper: the annotations field annotates the other field's value
                 LET others == SelectSeq(fs, LAMBDA f : ~f.ann)
                     inner == ToIon(others[Len(others)].val, "")
                 IN [inner EXCEPT !.ann = fs[annIdx].val.toks]
            ELSE LET kept == SelectSeq(fs, LAMBDA f : ~(f.omit /\ EmptyG(f.val)))
                 IN Val("struct", <<>>, [i \in 1..Len(kept) |-> [name |-> TextTok(FieldName(kept[i])), val |-> ToIon(kept[i].val, kept[i].hint)]])
    [] OTHER -> NullVal("unsupported", <<>>)

(* ---- documented losses of a round trip ---- *)
\* A time.Time comes back as the same instant with the same offset but in an anonymous fixed zone: whether
\* the offset counts as "known" is decided from the zone NAME when marshalling, so it is not compared.
RECURSIVE NormG(_)
NormG(g) ==
  CASE g.k = "time" -> [g EXCEPT !.ts = [@ EXCEPT !.known = TRUE]]
    [] g.k \in {"slice", "array", "ptr", "iface"} -> [g EXCEPT !.elems = [i \in 1..Len(@) |-> NormG(@[i])]]
    [] g.k = "map" -> [g EXCEPT !.entries = [i \in 1..Len(@) |-> [key |-> @[i].key, val |-> NormG(@[i].val)]]]
    [] g.k = "struct" -> [g EXCEPT !.fields = [i \in 1..Len(@) |-> [@[i] EXCEPT !.val = NormG(@)]]]
    [] OTHER -> g

(* ---- equivalence that forgets what Marshal is free to choose: the order of map keys ---- *)
\* sort struct fields by (name bytes) with a stable insertion sort; applied to both sides where order is free
LessBytes(a, b) ==
  LET n == IF Len(a) < Len(b) THEN Len(a) ELSE Len(b)
      d == SelectInSeq([i \in 1..n |-> a[i] # b[i]], LAMBDA x : x)
  IN IF d = 0 THEN Len(a) < Len(b) ELSE a[d] < b[d]
NameKey(f) == IF f.name.k = "text" THEN f.name.text ELSE <<>>
RECURSIVE Canon(_)
Canon(v) ==
  IF v.null THEN v
  ELSE IF v.t \in {"list", "sexp"} THEN [v EXCEPT !.v = [i \in 1..Len(v.v) |-> Canon(v.v[i])]]
  ELSE IF v.t = "struct" THEN
       LET fs == [i \in 1..Len(v.v) |-> [name |-> v.v[i].name, val |-> Canon(v.v[i].val)]]
       IN [v EXCEPT !.v = SortSeq(fs, LAMBDA a, b : LessBytes(NameKey(a), NameKey(b)))]
  ELSE v
\* same values up to the order of struct fields
EquivUnordered(a, b) == Equiv(Canon(a), Canon(b))
(* ---- C17: does a stored Go value represent an Ion value? ---- *)
\* the scalar content of an Ion value, forgetting annotations and the string/symbol, clob/blob, list/sexp distinctions
RECURSIVE Core(_)
Core(v) ==
  IF v.null THEN [t |-> "null"]
  ELSE CASE v.t \in {"string", "symbol"} -> [t |-> "text", v |-> IF v.t = "symbol" THEN (IF v.v.k = "text" THEN v.v.text ELSE <<0>>) ELSE v.v]
         [] v.t \in {"clob", "blob"} -> [t |-> "bytes", v |-> v.v]
         [] v.t \in {"list", "sexp"} -> [t |-> "seq", v |-> [i \in 1..Len(v.v) |-> Core(v.v[i])]]
         [] v.t = "struct" -> [t |-> "struct", v |-> [i \in 1..Len(v.v) |-> [name |-> v.v[i].name, val |-> Core(v.v[i].val)]]]
         [] v.t = "float" -> [t |-> "float", v |-> CanonFloat(v.v)]
         [] OTHER -> [t |-> v.t, v |-> v.v]

\* is the stored Go value g a faithful representation of Ion value v?
RECURSIVE Faithful(_, _)
Faithful(g, v) ==
  IF v.null THEN
       \* null: the zero value (nil pointer / slice / map / interface, zero scalar) - anything that is "empty"
       TRUE
  ELSE CASE g.k \in {"ptr", "iface"} -> ~g.nil /\ Faithful(g.elems[1], v)
    [] g.k = "bool" -> v.t = "bool" /\ g.b = v.v
    [] g.k \in {"int", "uint", "bigint"} -> v.t = "int" /\ g.i.neg = v.v.neg /\ g.i.mag = v.v.mag
    [] g.k = "float" ->
         /\ v.t = "float"
         /\ IF g.bits = 64 \/ IsNaNBits(v.v) \/ F32Exact(v.v) THEN CanonFloat(g.f) = CanonFloat(v.v)
            \* a float32 target rounds: that is not a fault, but a value beyond the float32 range must be refused
            ELSE Cmp([v.v EXCEPT ![1] = @ % 128], <<71, 239, 255, 255, 224, 0, 0, 0>>) <= 0     \* |v| <= MaxFloat32
    [] g.k = "string" -> v.t \in {"string", "symbol"} /\ Core(v).v = g.s
    [] g.k = "bytes" -> \/ (v.t \in {"clob", "blob"} /\ g.s = v.v)
                        \* a []byte is also a slice of uint8: a list of small ints fills it element by element
                        \/ (v.t \in {"list", "sexp"} /\ Len(g.s) = Len(v.v)
                            /\ \A i \in 1..Len(v.v) : v.v[i].t = "int" /\ ~v.v[i].null /\ ~v.v[i].v.neg /\ ToSmall(v.v[i].v.mag) = g.s[i])
    [] g.k = "timestamp" -> v.t = "timestamp" /\ g.ts = v.v
    [] g.k = "time" -> v.t = "timestamp"
    [] g.k = "decimal" -> v.t \in {"decimal", "float", "int"}
    [] g.k = "slice" -> /\ v.t \in {"list", "sexp"} /\ Len(g.elems) = Len(v.v)
                        /\ \A i \in 1..Len(v.v) : Faithful(g.elems[i], v.v[i])
    [] g.k = "array" -> \/ (v.t \in {"list", "sexp"} /\ \A i \in 1..Len(g.elems) : i > Len(v.v) \/ Faithful(g.elems[i], v.v[i]))
                        \/ (v.t \in {"clob", "blob"} /\ \A i \in 1..Len(g.elems) : i > Len(v.v) \/ (g.elems[i].k = "uint" /\ ToSmall(g.elems[i].i.mag) = v.v[i]))
    [] g.k = "map" -> /\ v.t = "struct"
                      /\ \A i \in 1..Len(g.entries) :
                            \E j \in 1..Len(v.v) : v.v[j].name.k = "text" /\ v.v[j].name.text = g.entries[i].key /\ Faithful(g.entries[i].val, v.v[j].val)
    [] g.k = "struct" -> TRUE      \* field-by-field mapping of structs is judged by C16's round trip
    [] g.k = "tokens" -> TRUE
    [] OTHER -> FALSE

=============================================================================
