----------------------------- MODULE MC_Decimal -----------------------------
(* Algebraic laws of spec/Decimal.tla on stream-driven operands: the oracle of C14 is itself an exact   *)
(* arithmetic (commutativity, a - b + b = a, antisymmetry of comparison, shift inverse, truncation).     *)
EXTENDS Decimal, SequencesExt, Json, TLC
CONSTANT StreamFile
Streams == ndJsonDeserialize(StreamFile)
R(st, i) == st[((i - 1) % Len(st)) + 1]
Operand(st, i) == [neg |-> R(st, i) % 2 = 1,
                   coef |-> Strip([k \in 1..((R(st, i + 1) % 24) + 1) |-> R(st, i + 2 + k) % 256]),
                   exp |-> (R(st, i + 30) % 81) - 40]
LawTruncate(a, p) == LET t == DTruncate(a, p)
                     IN SigDigits(t) <= p \/ SigDigits(a) <= p
Laws(a, b) == /\ LawAddComm(a, b) /\ LawSubInverse(a, b) /\ LawMulComm(a, b) /\ LawCmpAnti(a, b)
              /\ LawShift(a, 7) /\ LawTruncate(a, 3) /\ DCmp(DAbs(DTruncate(a, 2)), DAbs(a)) <= 0
AllHold == \A i \in 1..Len(Streams) : LET st == Streams[i].s IN Laws(Operand(st, 1), Operand(st, 40))
ASSUME PrintT(<<"decimal laws hold on", Len(Streams), "operand pairs:", AllHold>>)
ASSUME AllHold
=============================================================================
