----------------------------- MODULE Gen_Forests -----------------------------
(* GEN: the slot cases (exhaustive) followed by one random forest per stream. *)
EXTENDS Catalogue, Json, TLC
CONSTANTS StreamFile, OutFile, WithSlots
Streams == ndJsonDeserialize(StreamFile)
SlotF == IF WithSlots THEN [i \in 1..Len(SlotCases) |-> [kind |-> "slot", forest |-> SlotCases[i]]]
                          \o [i \in 1..Len(NestedLong) |-> [kind |-> "nested-long", forest |-> NestedLong[i]]] ELSE <<>>
Rand == [i \in 1..Len(Streams) |-> [kind |-> "random", forest |-> GenForest(Streams[i].s)]]
ASSUME ndJsonSerialize(OutFile, SlotF \o Rand)
=============================================================================
