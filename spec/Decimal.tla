------------------------------ MODULE Decimal ------------------------------
(***************************************************************************)
(* Exact decimal arithmetic (C14).  A decimal is [neg, coef, exp] with     *)
(* coef a BigNat magnitude; its value is (-1)^neg * coef * 10^exp (a zero  *)
(* coefficient with neg = TRUE is negative zero).  Results are compared as *)
(* rationals: the property fixes the value, not the scale.                 *)
(***************************************************************************)
EXTENDS BigNat

RECURSIVE TimesPow10(_, _)
TimesPow10(b, n) == IF n = 0 THEN b
                    ELSE IF n >= 4 THEN TimesPow10(MulSmallAdd(b, 10000, 0), n - 4)
                    ELSE TimesPow10(MulSmallAdd(b, 10, 0), n - 1)

Min2(x, y) == IF x < y THEN x ELSE y
IsZeroD(a) == a.coef = <<>>

\* signed sum of two magnitudes at the same scale
SignedSum(na, ma, nb, mb) ==
  IF na = nb THEN [neg |-> na /\ Add(ma, mb) # <<>>, mag |-> Add(ma, mb)]
  ELSE IF Cmp(ma, mb) = 0 THEN [neg |-> FALSE, mag |-> <<>>]
  ELSE IF Cmp(ma, mb) > 0 THEN [neg |-> na, mag |-> Sub(ma, mb)]
  ELSE [neg |-> nb, mag |-> Sub(mb, ma)]

DNeg(a) == [neg |-> ~a.neg /\ ~IsZeroD(a), coef |-> a.coef, exp |-> a.exp]
DAbs(a) == [neg |-> FALSE, coef |-> a.coef, exp |-> a.exp]
DAdd(a, b) ==
  LET e  == Min2(a.exp, b.exp)
      r  == SignedSum(a.neg /\ ~IsZeroD(a), TimesPow10(a.coef, a.exp - e), b.neg /\ ~IsZeroD(b), TimesPow10(b.coef, b.exp - e))
  IN [neg |-> r.neg, coef |-> r.mag, exp |-> e]
DSub(a, b) == DAdd(a, DNeg(b))
DMul(a, b) == LET m == Mul(a.coef, b.coef)
              IN [neg |-> (a.neg # b.neg) /\ m # <<>>, coef |-> m, exp |-> a.exp + b.exp]
DShiftL(a, n) == [a EXCEPT !.exp = @ + n]
DShiftR(a, n) == [a EXCEPT !.exp = @ - n]
DSign(a) == IF IsZeroD(a) THEN 0 ELSE IF a.neg THEN -1 ELSE 1
DCmp(a, b) == DSign(DSub(a, b))
ValEq(a, b) == DCmp(a, b) = 0
\* cut toward zero to p significant digits
DTruncate(a, p) ==
  LET ds == ToDec(a.coef)
  IN IF Len(ds) <= p THEN a
     ELSE [neg |-> a.neg, coef |-> FromDec(SubSeq(ds, 1, p)), exp |-> a.exp + (Len(ds) - p)]
SigDigits(a) == Len(ToDec(a.coef))

(* ---- laws (evaluated by TLC over the generated grid) ---- *)
LawAddComm(a, b)  == ValEq(DAdd(a, b), DAdd(b, a))
LawSubInverse(a, b) == ValEq(DAdd(DSub(a, b), b), a)
LawMulComm(a, b)  == ValEq(DMul(a, b), DMul(b, a))
LawCmpAnti(a, b)  == DCmp(a, b) = 0 - DCmp(b, a)
LawShift(a, n)    == ValEq(DShiftR(DShiftL(a, n), n), a)
=============================================================================
