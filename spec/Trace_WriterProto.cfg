SPECIFICATION TraceSpec
CONSTANTS
  FixedTexts <- FixedA
  TraceFile = "trace.ndjson"
  VerdictFile = "verdict.ndjson"
CHECK_DEADLOCK FALSE
