SPECIFICATION TraceSpec
CONSTANTS
  FixedTexts <- FixedA
  TraceFile = "trace.ndjson"
  VerdictFile = "verdict.ndjson"
POSTCONDITION TraceAccepted
CHECK_DEADLOCK FALSE
