----------------------------- MODULE MC_SymCtx -----------------------------
(* Exhaustive instance of the symbol-context machine: every stream of up to MaxLen items over the   *)
(* item alphabet, for one catalogue (history in state = GEN).                                        *)
EXTENDS SymCtx, TLC
CONSTANTS MaxLen

Tn == <<116>>   Un == <<117>>
X == <<120>>  Y == <<121>>  Z == <<122>>  P == <<112>>  Q == <<113>>
Catalogs == << <<>>,
               << [name |-> Tn, version |-> 1, syms |-> <<X, Y>>] >>,
               << [name |-> Tn, version |-> 1, syms |-> <<X, Y>>], [name |-> Tn, version |-> 2, syms |-> <<X, Y, Z>>] >>,
               << [name |-> Tn, version |-> 2, syms |-> <<X, Y, Z>>] >>,
               << [name |-> Tn, version |-> 1, syms |-> <<X>>], [name |-> Un, version |-> 1, syms |-> <<Q>>] >>,
               \* registered newest first: the latest version is the highest, not the last one registered
               << [name |-> Tn, version |-> 2, syms |-> <<X, Y, Z>>], [name |-> Tn, version |-> 1, syms |-> <<X, Y>>] >> >>
D(n, v, m) == [name |-> n, version |-> v, max |-> m]
ImportLists == << <<>>, <<D(Tn, 1, 2)>>, <<D(Tn, 2, 3)>>, <<D(Tn, 1, -1)>>, <<D(Tn, 1, 4)>>, <<D(Tn, 1, 1)>>,
                  <<D(Un, 1, 2)>>, <<D(Tn, 1, 2), D(Un, 1, 1)>>, <<D(Tn, 3, 0)>>, <<D(Tn, 3, 3)>> >>
SymLists == << <<>>, <<P>>, <<P, X>>, <<GapNull, P>>, <<P, GapInt, X>> >>
Sids == <<0, 4, 9, 10, 11, 12, 13, 14, 15>>

Items == << [k |-> "bvm"] >>
         \o FlattenSeq([i \in 1..Len(ImportLists) |-> [j \in 1..Len(SymLists) |->
                          [k |-> "replace", imps |-> ImportLists[i], syms |-> SymLists[j]]]])
         \o [j \in 1..(Len(SymLists) - 1) |-> [k |-> "append", syms |-> SymLists[j + 1]]]
         \o [i \in 1..Len(Sids) |-> [k |-> "val", sid |-> Sids[i]]]

VARIABLES cat, s, hist
vars == <<cat, s, hist>>
Init == cat \in 1..Len(Catalogs) /\ s = InitC /\ hist = <<>>
Next == /\ Len(hist) < MaxLen /\ ~s.err /\ cat' = cat
        /\ \E i \in 1..Len(Items) : s' = StepCat(s, Items[i], Catalogs[cat]) /\ hist' = Append(hist, i)
Spec == Init /\ [][Next]_vars

SysPrefix == SystemPrefix(s)
Keeps  == [][AppendKeeps(s, Items[hist'[Len(hist')]], s')]_vars
Resets == [][ResetForgets(s, Items[hist'[Len(hist')]], s')]_vars
Grows  == [][SeenGrows(s, s')]_vars
=============================================================================
