--------------------------- MODULE MC_WriterProto ---------------------------
(***************************************************************************)
(* Exhaustive instances of the Writer protocol.                            *)
(*  - GEN configuration (KeepHist = TRUE): the history of call indices is  *)
(*    part of the state, so every distinct program prefix of length        *)
(*    <= MaxLen is a distinct state; `tlc -dump` lists them and the        *)
(*    harness replays them on the real writers.                            *)
(*  - MC configuration (KeepHist = FALSE, VIEW): the protocol properties   *)
(*    are checked on the quotient that hides forest contents, to a larger  *)
(*    depth.                                                               *)
(***************************************************************************)
EXTENDS WriterAlphabet, TLC

CONSTANTS Mode, MaxLen, KeepHist, Use, MaxDepth, MaxMembers, MaxAnn, MaxBatches

FixedNone == <<>>
FixedA == << <<97>> >>

VARIABLES w, hist, last, n
vars == <<w, hist, last, n>>

Init == /\ w = InitW(Mode) /\ hist = <<>> /\ last = 0 /\ n = 0

Bounded(w2) == /\ Len(w2.stack) <= MaxDepth
               /\ \A i \in 1..Len(w2.open) : Len(w2.open[i]) <= MaxMembers
               /\ Len(w2.pann) <= MaxAnn
               /\ w2.nbatch <= MaxBatches

Next == /\ (KeepHist => n < MaxLen)
        /\ \E i \in Use :
             /\ (w.err => i \in AfterErr)
             /\ \E w2 \in Step(w, Alphabet[i]) :
                  /\ Bounded(w2)
                  /\ w' = w2
                  /\ last' = i
                  /\ hist' = IF KeepHist THEN Append(hist, i) ELSE <<>>
                  /\ n' = IF KeepHist THEN n + 1 ELSE 0

Spec == Init /\ [][Next]_vars

\* quotient for the MC configuration: container contents do not influence the protocol
View == <<w.mode, w.stack, w.pfield, w.pann, w.err, [i \in 1..Len(w.open) |-> Len(w.open[i])],
          Len(w.done), w.nbatch, w.res, last>>

TypeOK == /\ w.mode = Mode /\ w.err \in BOOLEAN /\ w.res \in {"ok", "err"}
          /\ WellFormed(w)
          /\ (w.res = "ok" /\ last # 0 /\ Alphabet[last].op # "Finish") => ~w.err

Sticky     == [][StickyStep(w, w')]_vars
ErrSet     == [][ErrSetStep(w, Alphabet[last'], w')]_vars
FinishOk   == [][FinishOkStep(w, Alphabet[last'], w')]_vars
AppendOnly == [][AppendOnlyStep(w, w')]_vars
\* no field name ever escapes into a value outside a struct, and members of structs are named
NamesOnlyInStructs ==
  \A i \in 1..Len(w.open) : \A j \in 1..Len(w.open[i]) :
     (w.open[i][j].name = NoTok) <=> (i = 1 \/ w.stack[i-1] # "struct")
=============================================================================
