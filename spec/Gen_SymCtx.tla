----------------------------- MODULE Gen_SymCtx -----------------------------
(***************************************************************************)
(* GEN for C10: streams (item histories) rendered in binary and in text,   *)
(* with the catalogue a Reader is given.  Expected observation: the        *)
(* specification's DECODER on the rendered bytes (accept(forest) or        *)
(* reject); the SymCtx machine must agree with it (spec-internal law).     *)
(***************************************************************************)
EXTENDS MC_SymCtx, IonBinaryEnc, IonTextEnc, Json
CONSTANTS HistFile, StreamFile, OutFile
Hists   == ndJsonDeserialize(HistFile)       \* [cat, h |-> Seq(item index)]
Streams == ndJsonDeserialize(StreamFile)

MkSym(t) == Val("symbol", <<>>, TextTok(t))
MkStr(t) == Val("string", <<>>, t)
MkInt(n) == Val("int", <<>>, [neg |-> FALSE, mag |-> IF n = 0 THEN <<>> ELSE <<n>>])
Fld(n, v) == [name |-> TextTok(n), val |-> v]
DeclVal(d) == Val("struct", <<>>, <<Fld(T_name, MkStr(d.name)), Fld(T_version, MkInt(d.version))>>
                                  \o (IF d.max = -1 THEN <<>> ELSE <<Fld(T_max_id, MkInt(d.max))>>))
SymsVal(ts) == Val("list", <<>>, [i \in 1..Len(ts) |-> IF ts[i] = GapNull THEN NullVal("string", <<>>)
                                                       ELSE IF ts[i] = GapInt THEN MkInt(7) ELSE MkStr(ts[i])])
LstVal(it) ==
  Val("struct", <<TextTok(T_ion_symbol_table)>>,
      IF it.k = "append" THEN <<Fld(T_imports, MkSym(T_ion_symbol_table)), Fld(T_symbols, SymsVal(it.syms))>>
      ELSE (IF it.imps = <<>> THEN <<>> ELSE <<Fld(T_imports, Val("list", <<>>, [i \in 1..Len(it.imps) |-> DeclVal(it.imps[i])]))>>)
           \o (IF it.syms = <<>> /\ it.imps # <<>> THEN <<>> ELSE <<Fld(T_symbols, SymsVal(it.syms))>>))
\* a user value that uses one symbol ID as annotation, field name and value
UserVal(sid) == Val("struct", <<SidTok(sid)>>, <<[name |-> SidTok(sid), val |-> Val("symbol", <<>>, SidTok(sid))]>>)

BinItem(it, st, i) == IF it.k = "bvm" THEN BVM
                      ELSE IF it.k = "val" THEN Enc(UserVal(it.sid), <<>>, st, i).b
                      ELSE Enc(LstVal(it), <<>>, st, i).b
TextItem(it, st, i) == IF it.k = "bvm" THEN T_ion_1_0
                       ELSE IF it.k = "val" THEN Spell(UserVal(it.sid), "top", st, i).b
                       ELSE \* the marking annotation is the symbol whose text is $ion_symbol_table, quoted or not
                            (IF Ch(st, i + 7, 3) = 0 THEN <<39>> \o T_ion_symbol_table \o <<39>> ELSE T_ion_symbol_table)
                            \o (IF Ch(st, i + 8, 4) = 0 THEN <<32, 58, 58, 32>> ELSE <<58, 58>>)
                            \o Spell([LstVal(it) EXCEPT !.ann = <<>>], "top", st, i).b

Render(h, st, bin) ==
  LET items == [k \in 1..Len(h) |-> Items[h[k]]]
  IN IF bin THEN BVM \o FlattenSeq([k \in 1..Len(items) |-> BinItem(items[k], st, 40 * k)])
     ELSE FlattenSeq([k \in 1..Len(items) |-> TextItem(items[k], st, 200 * k) \o <<IF k % 2 = 0 THEN 32 ELSE 10>>])

SlotCat(c) == [i \in 1..Len(c) |-> [name |-> c[i].name, version |-> c[i].version, syms |-> TextSlots(c[i].syms)]]

\* the machine's prediction of what a traversal shows: each user value shows its token three times
Predict(m) == [i \in 1..Len(m.seen) |-> [UserVal(0) EXCEPT !.ann = <<m.seen[i]>>,
                                                           !.v = <<[name |-> m.seen[i], val |-> Val("symbol", <<>>, m.seen[i])]>>]]

CaseOf(hc, st, bin) ==
  LET ctl == Catalogs[hc.cat]
      bs  == Render(hc.h, st, bin)
      d   == IF bin THEN BinDecode(bs, SlotCat(ctl)) ELSE TextDecodeCat(bs, SlotCat(ctl))
      m   == FoldLeft(LAMBDA acc, i : StepCat(acc, Items[i], ctl), InitC, hc.h)
  IN [cat |-> ctl, h |-> hc.h, fmt |-> IF bin THEN "binary" ELSE "text", bytes |-> bs,
      expect |-> IF d.ok THEN "accept" ELSE "reject", why |-> IF d.ok THEN "" ELSE d.why,
      forest |-> IF d.ok THEN d.forest ELSE <<>>,
      \* spec-internal law: the context machine and the decoder agree
      law |-> IF d.ok THEN ~m.err /\ ForestEquiv(d.forest, Predict(m)) ELSE m.err]

Cases == FlattenSeq([i \in 1..Len(Hists) |->
            LET st == Streams[((i - 1) % Len(Streams)) + 1].s
            IN <<CaseOf(Hists[i], st, TRUE), CaseOf(Hists[i], st, FALSE)>>])
ASSUME ndJsonSerialize(OutFile, Cases)
=============================================================================
