----------------------------- MODULE Judge_Total -----------------------------
(***************************************************************************)
(* JUDGE for C06: every driver on every input returned normally, within    *)
(* the resource envelope.  The envelope is deliberately generous and       *)
(* linear in the input: what it excludes is work out of proportion to the  *)
(* input (a 17-byte input allocating 35 MB, a 12-byte input asking for     *)
(* terabytes), not a large constant factor.                                *)
(***************************************************************************)
EXTENDS Naturals, Sequences, Json, TLC
CONSTANTS ObsFile, VerdictFile
Obs == ndJsonDeserialize(ObsFile)    \* [idx, len, res: Seq([driver, panic, site, alloc, ms, calls, n])]; n = readings of the input inside one measurement
AllocBoundKiB(len) == 8 * 1024 + len                   \* KiB allocated by one driver: 8 MiB + 1 KiB per input byte
TimeBound(len) == 5000 + (len \div 20)                \* milliseconds (50 us per input byte on top of 5 s)
Why(o, r) == IF r.panic # "" THEN "panic"
             ELSE IF r.alloc \div 1024 > AllocBoundKiB(o.len) * r.n THEN "allocation out of proportion to the input"
             ELSE IF r.ms > TimeBound(o.len) * r.n THEN "time out of proportion to the input"
             ELSE "ok"
Verdict(o) == LET bad == SelectSeq(o.res, LAMBDA r : Why(o, r) # "ok")
              IN [idx |-> o.idx, bad |-> [i \in 1..Len(bad) |-> [driver |-> bad[i].driver, why |-> Why(o, bad[i]), site |-> bad[i].site,
                                                                  panic |-> bad[i].panic, alloc |-> bad[i].alloc, ms |-> bad[i].ms]]]
ASSUME ndJsonSerialize(VerdictFile, [i \in 1..Len(Obs) |-> Verdict(Obs[i])])
=============================================================================
