------------------------------ MODULE IonText ------------------------------
(***************************************************************************)
(* Ion 1.0 text: a total recogniser/decoder written from the Ion text      *)
(* grammar (DESIGN.md Appendix D).  It shares nothing with ion-go and is   *)
(* the judge for everything the text writers emit and the reference for    *)
(* every spelling handed to the text reader.                               *)
(*                                                                         *)
(*   TextDecode(bs) = [ok |-> TRUE, forest |-> Seq(value), ctx |-> ...]    *)
(*                  | [ok |-> FALSE, why |-> reason, at |-> byte index]    *)
(*                                                                         *)
(* Reasons starting with "open:" or "limit:" mark points the Ion           *)
(* specification leaves open (or legitimate implementation limits); such   *)
(* inputs are never used as must-accept or must-reject cases.              *)
(***************************************************************************)
EXTENDS IonBinary

EOFc == -1
At(bs, p) == IF p >= 1 /\ p <= Len(bs) THEN bs[p] ELSE EOFc

IsWs(c)      == c \in {32, 9, 10, 13, 11, 12}
IsDigit(c)   == c >= 48 /\ c <= 57
IsHexDig(c)  == IsDigit(c) \/ (c >= 65 /\ c <= 70) \/ (c >= 97 /\ c <= 102)
HexVal(c)    == IF IsDigit(c) THEN c - 48 ELSE IF c >= 97 THEN c - 87 ELSE c - 55
IsLetter(c)  == (c >= 65 /\ c <= 90) \/ (c >= 97 /\ c <= 122)
IsIdStart(c) == IsLetter(c) \/ c = 95 \/ c = 36
IsIdPart(c)  == IsIdStart(c) \/ IsDigit(c)
\* ! # % & * + - . / ; < = > ? @ ^ ` | ~
OpChars      == {33, 35, 37, 38, 42, 43, 45, 46, 47, 59, 60, 61, 62, 63, 64, 94, 96, 124, 126}
IsOp(c)      == c \in OpChars
\* characters that end a scalar token: { } [ ] ( ) , " ' and whitespace, EOF
StopSet      == {123, 125, 91, 93, 40, 41, 44, 34, 39, 32, 9, 10, 13, 11, 12}
IsStop(c)    == c = EOFc \/ c \in StopSet
IsCommentStart(bs, p) == At(bs, p) = 47 /\ At(bs, p + 1) \in {47, 42}
\* a scalar ends here: stop character, end of input or the start of a comment
EndsScalar(bs, p) == IsStop(At(bs, p)) \/ IsCommentStart(bs, p)

Str(s) == s     \* (documentation aid: byte strings are written as tuples of character codes)

(***************************************************************************)
(* Whitespace and comments                                                 *)
(***************************************************************************)
\* index after the end of a // comment starting its text at p (the newline itself is whitespace)
EndOfLine(bs, p) == LET q == SelectInSubSeq(bs, p, Len(bs), LAMBDA c : c \in {10, 13})
                    IN IF q = 0 THEN Len(bs) + 1 ELSE q

\* index after the closing */ of a block comment whose text starts at p; 0 if unterminated
RECURSIVE BlockEnd(_, _)
BlockEnd(bs, p) == LET q == SelectInSubSeq(bs, p, Len(bs), LAMBDA c : c = 42)
                   IN IF q = 0 THEN 0
                      ELSE IF At(bs, q + 1) = 47 THEN q + 2 ELSE BlockEnd(bs, q + 1)

RECURSIVE SkipWs(_, _)
SkipWs(bs, p) ==
  LET c == At(bs, p)
  IN IF IsWs(c) THEN
        LET q == SelectInSubSeq(bs, p, Len(bs), LAMBDA x : ~IsWs(x))
        IN IF q = 0 THEN [ok |-> TRUE, next |-> Len(bs) + 1] ELSE SkipWs(bs, q)
     ELSE IF c = 47 /\ At(bs, p + 1) = 47 THEN SkipWs(bs, EndOfLine(bs, p + 2))
     ELSE IF c = 47 /\ At(bs, p + 1) = 42 THEN
        LET e == BlockEnd(bs, p + 2)
        IN IF e = 0 THEN Rej("unterminated block comment", p) ELSE SkipWs(bs, e)
     ELSE [ok |-> TRUE, next |-> p]

\* whitespace only (inside {{ }} comments are not allowed)
SkipPlainWs(bs, p) ==
  IF ~IsWs(At(bs, p)) THEN p
  ELSE LET q == SelectInSubSeq(bs, p, Len(bs), LAMBDA x : ~IsWs(x))
       IN IF q = 0 THEN Len(bs) + 1 ELSE q

(***************************************************************************)
(* Escapes, strings, quoted symbols, clobs                                 *)
(***************************************************************************)
HexRun(bs, p, n) == \A i \in p..(p + n - 1) : IsHexDig(At(bs, i))
HexNum(bs, p, n) == FoldLeft(LAMBDA acc, c : acc * 16 + HexVal(c), 0, SubSeq(bs, p, p + n - 1))

\* An escape sequence starting with the backslash at p.
\*   [ok, bytes |-> what it denotes, next]  ;  clob = TRUE forbids \u \U and yields raw bytes for \x
SimpleEsc(c) ==
  CASE c = 48 -> <<0>>   [] c = 97 -> <<7>>   [] c = 98 -> <<8>>   [] c = 116 -> <<9>>
    [] c = 110 -> <<10>> [] c = 102 -> <<12>> [] c = 114 -> <<13>> [] c = 118 -> <<11>>
    [] c = 34 -> <<34>>  [] c = 39 -> <<39>>  [] c = 63 -> <<63>>  [] c = 47 -> <<47>>
    [] c = 92 -> <<92>>  [] OTHER -> <<>>
IsSimpleEsc(c) == c \in {48, 97, 98, 116, 110, 102, 114, 118, 34, 39, 63, 47, 92}

IsHighSurr(cp) == cp >= 55296 /\ cp <= 56319
IsLowSurr(cp)  == cp >= 56320 /\ cp <= 57343

Escape(bs, p, clob) ==
  LET c == At(bs, p + 1)
  IN IF c = EOFc THEN Rej("input ends inside an escape", p)
     ELSE IF IsSimpleEsc(c) THEN [ok |-> TRUE, bytes |-> SimpleEsc(c), next |-> p + 2]
     ELSE IF c = 10 THEN [ok |-> TRUE, bytes |-> <<>>, next |-> p + 2]          \* line continuation
     ELSE IF c = 13 THEN [ok |-> TRUE, bytes |-> <<>>,
                          next |-> IF At(bs, p + 2) = 10 THEN p + 3 ELSE p + 2]
     ELSE IF c = 120 THEN
          IF ~HexRun(bs, p + 2, 2) THEN Rej("bad \\x escape", p)
          ELSE LET v == HexNum(bs, p + 2, 2)
               IN [ok |-> TRUE, bytes |-> IF clob THEN <<v>> ELSE Utf8Encode(v), next |-> p + 4]
     ELSE IF c = 117 /\ ~clob THEN
          IF ~HexRun(bs, p + 2, 4) THEN Rej("bad \\u escape", p)
          ELSE LET v == HexNum(bs, p + 2, 4)
               IN IF IsLowSurr(v) THEN Rej("lone low surrogate escape", p)
                  ELSE IF IsHighSurr(v) THEN
                       \* must be followed by \u low surrogate: one code point
                       IF At(bs, p + 6) = 92 /\ At(bs, p + 7) = 117 /\ HexRun(bs, p + 8, 4)
                          /\ IsLowSurr(HexNum(bs, p + 8, 4))
                       THEN LET lo == HexNum(bs, p + 8, 4)
                                cp == 65536 + (v - 55296) * 1024 + (lo - 56320)
                            IN [ok |-> TRUE, bytes |-> Utf8Encode(cp), next |-> p + 12]
                       ELSE Rej("lone high surrogate escape", p)
                  ELSE [ok |-> TRUE, bytes |-> Utf8Encode(v), next |-> p + 6]
     ELSE IF c = 85 /\ ~clob THEN
          IF ~HexRun(bs, p + 2, 8) THEN Rej("bad \\U escape", p)
          ELSE IF HexNum(bs, p + 2, 2) # 0 \/ HexNum(bs, p + 4, 6) > 1114111
               THEN Rej("\\U escape beyond U+10FFFF", p)
          ELSE LET v == HexNum(bs, p + 4, 6)
               IN IF IsSurrogate(v) THEN Rej("surrogate in \\U escape", p)
                  ELSE [ok |-> TRUE, bytes |-> Utf8Encode(v), next |-> p + 10]
     ELSE Rej("illegal escape", p)

\* Body of a quoted token: from p up to (not including) the terminator.
\*   q       the quote character (34 or 39)
\*   long    TRUE for '''...''' (terminator is ''' ; raw newlines allowed and normalised)
\*   clob    TRUE inside {{ }}: 7-bit only, no \u \U
\* Returns [ok, bytes, next |-> index after the closing quote(s)]
RECURSIVE QuotedBody(_, _, _, _, _, _)
QuotedBody(bs, p, q, long, clob, acc) ==
  LET s == SelectInSubSeq(bs, p, Len(bs),
             LAMBDA c : c = q \/ c = 92 \/ c < 32 \/ (clob /\ c > 127))
  IN IF s = 0 THEN Rej("unterminated quoted text", p)
     ELSE
     LET run == acc \o SubSeq(bs, p, s - 1)
         c == bs[s]
     IN IF c = 92 THEN
             LET e == Escape(bs, s, clob)
             IN IF ~e.ok THEN e ELSE QuotedBody(bs, e.next, q, long, clob, run \o e.bytes)
        ELSE IF c = q THEN
             IF ~long THEN [ok |-> TRUE, bytes |-> run, next |-> s + 1]
             ELSE IF At(bs, s + 1) = q /\ At(bs, s + 2) = q
                  THEN [ok |-> TRUE, bytes |-> run, next |-> s + 3]
                  ELSE QuotedBody(bs, s + 1, q, long, clob, Append(run, c))
        ELSE IF c \in {10, 13} THEN
             IF ~long THEN Rej("raw newline in short quoted text", s)
             ELSE IF c = 13 THEN QuotedBody(bs, IF At(bs, s + 1) = 10 THEN s + 2 ELSE s + 1,
                                            q, long, clob, Append(run, 10))
             ELSE QuotedBody(bs, s + 1, q, long, clob, Append(run, 10))
        ELSE IF c \in {9, 11, 12} THEN QuotedBody(bs, s + 1, q, long, clob, Append(run, c))
        ELSE IF c < 32 THEN Rej("open: raw control character in quoted text", s)
        ELSE Rej("non-ASCII character in clob", s)

IsTriple(bs, p) == At(bs, p) = 39 /\ At(bs, p + 1) = 39 /\ At(bs, p + 2) = 39

\* one or more '''...''' segments separated by whitespace (and comments unless clob)
RECURSIVE LongSegments(_, _, _, _)
LongSegments(bs, p, clob, acc) ==
  LET b == QuotedBody(bs, p + 3, 39, TRUE, clob, <<>>)
  IN IF ~b.ok THEN b
     ELSE LET w == IF clob THEN [ok |-> TRUE, next |-> SkipPlainWs(bs, b.next)] ELSE SkipWs(bs, b.next)
          IN IF ~w.ok THEN
                \* an unterminated comment after a complete string: the string itself is complete
                [ok |-> TRUE, bytes |-> acc \o b.bytes, next |-> b.next]
             ELSE IF IsTriple(bs, w.next) THEN LongSegments(bs, w.next, clob, acc \o b.bytes)
             ELSE [ok |-> TRUE, bytes |-> acc \o b.bytes, next |-> b.next]

\* a string value at p (p is at " or at ''')
ParseString(bs, p) ==
  LET r == IF At(bs, p) = 34 THEN QuotedBody(bs, p + 1, 34, FALSE, FALSE, <<>>)
           ELSE LongSegments(bs, p, FALSE, <<>>)
  IN IF ~r.ok THEN r
     ELSE IF ~Utf8Valid(r.bytes) THEN Rej("string is not valid UTF-8", p)
     ELSE r

\* a quoted symbol at p (p is at a single ' that is not a triple quote)
ParseQuotedSymbol(bs, p) ==
  LET r == QuotedBody(bs, p + 1, 39, FALSE, FALSE, <<>>)
  IN IF ~r.ok THEN r
     ELSE IF ~Utf8Valid(r.bytes) THEN Rej("symbol text is not valid UTF-8", p)
     ELSE r

(***************************************************************************)
(* Blobs and clobs:  p is at the first { of {{                             *)
(***************************************************************************)
B64Val(c) == IF c >= 65 /\ c <= 90 THEN c - 65
             ELSE IF c >= 97 /\ c <= 122 THEN c - 71
             ELSE IF IsDigit(c) THEN c + 4
             ELSE IF c = 43 THEN 62 ELSE IF c = 47 THEN 63 ELSE -1

B64Decode(chars) ==     \* chars: base64 characters without whitespace, length a multiple of 4
  LET n == Len(chars) \div 4
      quad(k) == LET a == B64Val(chars[4*k-3])  b == B64Val(chars[4*k-2])
                     c == chars[4*k-1]          d == chars[4*k]
                 IN IF c = 61 THEN <<a * 4 + b \div 16>>
                    ELSE IF d = 61 THEN <<a * 4 + b \div 16, (b % 16) * 16 + B64Val(c) \div 4>>
                    ELSE <<a * 4 + b \div 16, (b % 16) * 16 + B64Val(c) \div 4,
                           (B64Val(c) % 4) * 64 + B64Val(d)>>
  IN FlattenSeq([k \in 1..n |-> quad(k)])

B64WellFormed(chars) ==
  /\ Len(chars) % 4 = 0
  /\ \A i \in 1..Len(chars) :
        \/ B64Val(chars[i]) >= 0
        \/ chars[i] = 61 /\ i >= Len(chars) - 1 /\ (i = Len(chars) - 1 => chars[Len(chars)] = 61)
        
\* RFC 4648 lets a decoder reject or ignore non-zero padding bits in the last character: open.
B64Canonical(chars) ==
  Len(chars) > 0 =>
        LET a == chars[Len(chars) - 1]  b == chars[Len(chars)]
        IN /\ (a = 61 => B64Val(chars[Len(chars) - 2]) % 16 = 0)
           /\ (a # 61 /\ b = 61 => B64Val(a) % 4 = 0)

ParseLob(bs, p) ==
  LET s == SkipPlainWs(bs, p + 2)
      c == At(bs, s)
  IN IF c = 34 \/ IsTriple(bs, s) THEN
        LET r == IF c = 34 THEN QuotedBody(bs, s + 1, 34, FALSE, TRUE, <<>>)
                 ELSE LongSegments(bs, s, TRUE, <<>>)
        IN IF ~r.ok THEN r
           ELSE LET e == SkipPlainWs(bs, r.next)
                IN IF At(bs, e) = 125 /\ At(bs, e + 1) = 125
                   THEN [ok |-> TRUE, v |-> Val("clob", <<>>, r.bytes), next |-> e + 2]
                   ELSE Rej("clob not closed by }}", e)
     ELSE
        LET e == SelectInSubSeq(bs, s, Len(bs), LAMBDA x : x = 125)
        IN IF e = 0 THEN Rej("unterminated blob", p)
           ELSE IF At(bs, e + 1) # 125 THEN Rej("blob not closed by }}", e)
           ELSE LET chars == SelectSeq(SubSeq(bs, s, e - 1), LAMBDA x : ~IsWs(x))
                IN IF ~B64WellFormed(chars) THEN Rej("malformed base64 in blob", s)
                   ELSE IF ~B64Canonical(chars) THEN Rej("open: non-zero padding bits in base64", s)
                   ELSE [ok |-> TRUE, v |-> Val("blob", <<>>, B64Decode(chars)), next |-> e + 2]

(***************************************************************************)
(* Numbers                                                                 *)
(***************************************************************************)
\* digit run with single underscores between digits: D(_?D)*  — returns the digit values or fails
DigitsOK(tok, isDig(_)) ==
  /\ tok # <<>> /\ isDig(tok[1]) /\ isDig(tok[Len(tok)])
  /\ \A i \in 1..Len(tok) : isDig(tok[i]) \/ (tok[i] = 95 /\ tok[i - 1] # 95)
DigitVals(tok) == LET ds == SelectSeq(tok, LAMBDA c : c # 95)
                  IN [i \in 1..Len(ds) |-> HexVal(ds[i])]

IsBinDig(c) == c \in {48, 49}

\* decimal integer part: 0 | [1-9](_?[0-9])*
IntPartOK(tok) == DigitsOK(tok, IsDigit) /\ (tok[1] = 48 => Len(tok) = 1)

\* exponent digits: [+-]?[0-9]+   -> [ok, neg, val (saturating)]
ExpOf(tok) ==
  LET signed == tok # <<>> /\ tok[1] \in {43, 45}
      ds == IF signed THEN Tail(tok) ELSE tok
  IN IF ds = <<>> \/ \E i \in 1..Len(ds) : ~IsDigit(ds[i]) THEN [ok |-> FALSE]
     ELSE [ok |-> TRUE, neg |-> signed /\ tok[1] = 45,
           val |-> ToSmall(FromDec([i \in 1..Len(ds) |-> ds[i] - 48]))]

(* ---- decimal text -> IEEE-754 binary64, exactly (round to nearest, ties to even) ---- *)
BitsOf(b) == LET s == Strip(b)
             IN IF s = <<>> THEN <<>>
                ELSE LET all == FlattenSeq([i \in 1..Len(s) |-> Bits(s[i], 8)])
                         f == SelectInSeq(all, LAMBDA x : x = 1)
                     IN SubSeq(all, f, Len(all))

\* add one to a bit list (may grow by one bit)
IncBits(bits) ==
  LET r == FoldRight(LAMBDA x, acc : [carry |-> (x + acc.carry) \div 2,
                                       out |-> <<(x + acc.carry) % 2>> \o acc.out],
                     bits, [carry |-> 1, out |-> <<>>])
  IN IF r.carry = 1 THEN <<1>> \o r.out ELSE r.out

RECURSIVE DivPow10(_, _, _)
\* floor(b / 10^n) with sticky remainder flag
DivPow10(b, n, sticky) ==
  IF n = 0 THEN [q |-> b, sticky |-> sticky]
  ELSE IF n >= 4 THEN LET qr == DivModSmall(b, 10000) IN DivPow10(qr[1], n - 4, sticky \/ qr[2] # 0)
  ELSE LET qr == DivModSmall(b, 10) IN DivPow10(qr[1], n - 1, sticky \/ qr[2] # 0)

RECURSIVE MulPow10(_, _)
MulPow10(b, n) == IF n = 0 THEN b
                  ELSE IF n >= 4 THEN MulPow10(MulSmallAdd(b, 10000, 0), n - 4)
                  ELSE MulPow10(MulSmallAdd(b, 10, 0), n - 1)

F64Bits(sign, biased, mant52) == PackBytes(<<sign>> \o Bits(biased, 11) \o mant52)
InfBits(sign) == F64Bits(sign, 2047, Zeros(52))

\* digits: decimal digits (values), e10: power of ten (|e10| < Huge)
DecToF64(neg, digits, e10) ==
  LET sign == IF neg THEN 1 ELSE 0
      sig  == LET f == SelectInSeq(digits, LAMBDA d : d # 0)
              IN IF f = 0 THEN <<>> ELSE SubSeq(digits, f, Len(digits))
      nd   == Len(sig)
  IN IF sig = <<>> THEN F64Bits(sign, 0, Zeros(52))
     ELSE IF nd + e10 > 310 THEN InfBits(sign)
     ELSE IF nd + e10 < -330 THEN F64Bits(sign, 0, Zeros(52))
     ELSE
     LET c  == FromDec(sig)
         kB == IF e10 >= 0 THEN 0 ELSE ((4 * (0 - e10) + 64) \div 8) + 1     \* bytes shifted in
         big == IF e10 >= 0 THEN [q |-> MulPow10(c, e10), sticky |-> FALSE]
                ELSE DivPow10(c \o Zeros(kB), 0 - e10, FALSE)
         E  == 0 - 8 * kB                        \* value = q * 2^E (plus sticky)
         qb == BitsOf(big.q)
         L  == Len(qb)
         e  == L - 1 + E                         \* value in [2^e, 2^(e+1))
         keep == IF e >= -1022 THEN 53 ELSE e + 1075       \* significant bits kept (may be <= 0)
     IN IF e > 1023 THEN InfBits(sign)
        ELSE IF keep < 0 THEN F64Bits(sign, 0, Zeros(52))  \* below half of the least subnormal
        ELSE
        LET padded == IF L < keep + 1 THEN qb \o Zeros(keep + 1 - L) ELSE qb
            kept   == SubSeq(padded, 1, keep)
            guard  == padded[keep + 1]
            rest   == big.sticky \/ \E i \in (keep + 2)..Len(padded) : padded[i] = 1
            odd    == keep > 0 /\ kept[keep] = 1
            up     == guard = 1 /\ (rest \/ odd)
            m      == IF up THEN (IF keep = 0 THEN <<1>> ELSE IncBits(kept)) ELSE kept
        IN IF e >= -1022 THEN
              \* normal: m has 53 bits, or 54 after a carry (then it is 1 followed by zeros)
              IF Len(m) = 54 THEN (IF e + 1 > 1023 THEN InfBits(sign)
                                   ELSE F64Bits(sign, e + 1 + 1023, Zeros(52)))
              ELSE F64Bits(sign, e + 1023, SubSeq(m, 2, 53))
           ELSE
              \* subnormal: m has keep (<= 52) bits, or keep + 1 after a carry
              IF Len(m) = 53 THEN F64Bits(sign, 1, Zeros(52))
              ELSE F64Bits(sign, 0, Zeros(52 - Len(m)) \o m)

(* ---- timestamps ---- *)
TwoDig(tok, i) == IsDigit(At(tok, i)) /\ IsDigit(At(tok, i + 1))
Num2(tok, i)   == (tok[i] - 48) * 10 + (tok[i + 1] - 48)
Num4(tok, i)   == Num2(tok, i) * 100 + Num2(tok, i + 2)

TsRec(y, mo, d, h, mi, s, frac, off, known, prec) ==
  [y |-> y, mo |-> mo, d |-> d, h |-> h, mi |-> mi, s |-> s, frac |-> frac,
   off |-> off, known |-> known, prec |-> prec]

\* offset text at tok[i..]: Z | +hh:mm | -hh:mm, must end the token -> [ok, off, known]
OffsetOf(tok, i) ==
  IF At(tok, i) = 90 /\ i = Len(tok) THEN [ok |-> TRUE, off |-> 0, known |-> TRUE]
  ELSE IF At(tok, i) \in {43, 45} /\ TwoDig(tok, i + 1) /\ At(tok, i + 3) = 58 /\ TwoDig(tok, i + 4)
          /\ i + 5 = Len(tok)
       THEN LET hh == Num2(tok, i + 1)  mm == Num2(tok, i + 4)
            IN IF hh > 23 \/ mm > 59 THEN [ok |-> FALSE]
               ELSE IF tok[i] = 45 /\ hh = 0 /\ mm = 0 THEN [ok |-> TRUE, off |-> 0, known |-> FALSE]
               ELSE [ok |-> TRUE, off |-> (IF tok[i] = 45 THEN -1 ELSE 1) * (hh * 60 + mm), known |-> TRUE]
  ELSE [ok |-> FALSE]

\* local wall-clock fields + offset -> the record of IonData (UTC fields)
Localised(y, mo, d, h, mi, s, frac, o, prec) ==
  LET u == AddMinutes([y |-> y, mo |-> mo, d |-> d, h |-> h, mi |-> mi], 0 - o.off)
  IN \* the local year is within 0001..9999 (checked by the caller); the UTC year may be 0 or 10000
     [ok |-> TRUE, ts |-> TsRec(u.y, u.mo, u.d, u.h, u.mi, s, frac, o.off, o.known, prec)]

ParseTimestampTok(tok) ==
  LET bad == Rej("malformed timestamp", 0)
      n == Len(tok)
  IN IF ~(TwoDig(tok, 1) /\ TwoDig(tok, 3)) THEN bad
     ELSE
     LET y == Num4(tok, 1)
     IN IF y < 1 THEN Rej("timestamp year 0000", 0)
        ELSE IF n = 5 /\ tok[5] = 84 THEN [ok |-> TRUE, ts |-> TsRec(y, 1, 1, 0, 0, 0, <<>>, 0, FALSE, 1)]
        ELSE IF ~(At(tok, 5) = 45 /\ TwoDig(tok, 6)) THEN bad
        ELSE
        LET mo == Num2(tok, 6)
        IN IF mo < 1 \/ mo > 12 THEN Rej("timestamp month out of range", 0)
           ELSE IF n = 8 /\ tok[8] = 84 THEN [ok |-> TRUE, ts |-> TsRec(y, mo, 1, 0, 0, 0, <<>>, 0, FALSE, 2)]
           ELSE IF ~(At(tok, 8) = 45 /\ TwoDig(tok, 9)) THEN bad
           ELSE
           LET d == Num2(tok, 9)
           IN IF d < 1 \/ d > DaysIn(y, mo) THEN Rej("timestamp day out of range", 0)
              ELSE IF n = 10 \/ (n = 11 /\ tok[11] = 84)
                   THEN [ok |-> TRUE, ts |-> TsRec(y, mo, d, 0, 0, 0, <<>>, 0, FALSE, 3)]
              ELSE IF ~(At(tok, 11) = 84 /\ TwoDig(tok, 12) /\ At(tok, 14) = 58 /\ TwoDig(tok, 15)) THEN bad
              ELSE
              LET h == Num2(tok, 12)  mi == Num2(tok, 15)
              IN IF h > 23 \/ mi > 59 THEN Rej("timestamp hour or minute out of range", 0)
                 ELSE IF At(tok, 17) # 58 THEN
                      LET o == OffsetOf(tok, 17)
                      IN IF ~o.ok THEN Rej("timestamp with time needs a valid offset", 0)
                         ELSE Localised(y, mo, d, h, mi, 0, <<>>, o, 4)
                 ELSE IF ~TwoDig(tok, 18) THEN bad
                 ELSE
                 LET s == Num2(tok, 18)
                 IN IF s > 59 THEN Rej("timestamp second out of range", 0)
                    ELSE IF At(tok, 20) # 46 THEN
                         LET o == OffsetOf(tok, 20)
                         IN IF ~o.ok THEN Rej("timestamp with time needs a valid offset", 0)
                            ELSE Localised(y, mo, d, h, mi, s, <<>>, o, 5)
                    ELSE
                    LET fe == SelectInSubSeq(tok, 21, n, LAMBDA c : ~IsDigit(c))
                    IN IF fe = 0 \/ fe = 21 THEN bad
                       ELSE LET o == OffsetOf(tok, fe)
                                frac == [i \in 1..(fe - 21) |-> tok[20 + i] - 48]
                            IN IF ~o.ok THEN Rej("timestamp with time needs a valid offset", 0)
                               ELSE Localised(y, mo, d, h, mi, s, frac, o, 6)

LooksLikeTimestamp(tok) == Len(tok) >= 5 /\ TwoDig(tok, 1) /\ TwoDig(tok, 3) /\ tok[5] \in {84, 45}

(* ---- a numeric token (maximal run of non-stop characters starting with a digit or '-') ---- *)
ParseNumberTok(tok) ==
  IF LooksLikeTimestamp(tok) THEN
     LET t == ParseTimestampTok(tok)
     IN IF ~t.ok THEN t ELSE [ok |-> TRUE, v |-> Val("timestamp", <<>>, t.ts)]
  ELSE
  LET neg  == tok[1] = 45
      body == IF neg THEN Tail(tok) ELSE tok
  IN IF body = <<>> THEN Rej("lone minus sign", 0)
     ELSE IF Len(body) >= 2 /\ body[1] = 48 /\ body[2] \in {120, 88} THEN
          LET ds == SubSeq(body, 3, Len(body))
          IN IF ~DigitsOK(ds, IsHexDig) THEN Rej("malformed hexadecimal integer", 0)
             ELSE LET mag == FromRadix(DigitVals(ds), 16)
                  IN IF neg /\ mag = <<>> THEN Rej("open: negative zero integer in text", 0)
                     ELSE [ok |-> TRUE, v |-> Val("int", <<>>, [neg |-> neg, mag |-> mag])]
     ELSE IF Len(body) >= 2 /\ body[1] = 48 /\ body[2] \in {98, 66} THEN
          LET ds == SubSeq(body, 3, Len(body))
          IN IF ~DigitsOK(ds, IsBinDig) THEN Rej("malformed binary integer", 0)
             ELSE LET mag == FromRadix(DigitVals(ds), 2)
                  IN IF neg /\ mag = <<>> THEN Rej("open: negative zero integer in text", 0)
                     ELSE [ok |-> TRUE, v |-> Val("int", <<>>, [neg |-> neg, mag |-> mag])]
     ELSE
     LET x  == SelectInSeq(body, LAMBDA c : c \in {101, 69, 100, 68})      \* exponent marker
         mant == IF x = 0 THEN body ELSE SubSeq(body, 1, x - 1)
         dot  == SelectInSeq(mant, LAMBDA c : c = 46)
         ip   == IF dot = 0 THEN mant ELSE SubSeq(mant, 1, dot - 1)
         fp   == IF dot = 0 THEN <<>> ELSE SubSeq(mant, dot + 1, Len(mant))
         ex   == IF x = 0 THEN [ok |-> TRUE, neg |-> FALSE, val |-> 0]
                 ELSE ExpOf(SubSeq(body, x + 1, Len(body)))
     IN IF ~IntPartOK(ip) THEN Rej("malformed number", 0)
        ELSE IF fp # <<>> /\ ~DigitsOK(fp, IsDigit) THEN Rej("malformed fraction", 0)
        ELSE IF ~ex.ok THEN Rej("malformed exponent", 0)
        ELSE IF ex.val >= Huge THEN Rej("limit: exponent beyond 2^30", 0)
        ELSE
        LET idig == DigitVals(ip)
            fdig == IF fp = <<>> THEN <<>> ELSE DigitVals(fp)
            e10  == (IF ex.neg THEN 0 - ex.val ELSE ex.val) - Len(fdig)
        IN IF x = 0 /\ dot = 0 THEN
                LET mag == FromDec(idig)
                IN IF neg /\ mag = <<>> THEN Rej("open: negative zero integer in text", 0)
                   ELSE [ok |-> TRUE, v |-> Val("int", <<>>, [neg |-> neg, mag |-> mag])]
           ELSE IF x # 0 /\ body[x] \in {101, 69} THEN
                [ok |-> TRUE, v |-> Val("float", <<>>, DecToF64(neg, idig \o fdig, e10))]
           ELSE [ok |-> TRUE, v |-> Val("decimal", <<>>,
                                       [neg |-> neg, coef |-> FromDec(idig \o fdig), exp |-> e10])]

\* end (exclusive) of the scalar token starting at p
TokenEnd(bs, p) ==
  LET q == SelectInSubSeq(bs, p, Len(bs), LAMBDA c : c \in StopSet \/ c = 47)
  IN IF q = 0 THEN Len(bs) + 1
     ELSE q      \* a '/' inside a number is never legal, so the token may end there too

(***************************************************************************)
(* Symbols, keywords                                                       *)
(***************************************************************************)
IdentEnd(bs, p) == LET q == SelectInSubSeq(bs, p, Len(bs), LAMBDA c : ~IsIdPart(c))
                   IN IF q = 0 THEN Len(bs) + 1 ELSE q

K_null  == <<110, 117, 108, 108>>
K_true  == <<116, 114, 117, 101>>
K_false == <<102, 97, 108, 115, 101>>
K_nan   == <<110, 97, 110>>
K_inf   == <<105, 110, 102>>
Keywords == {K_null, K_true, K_false, K_nan}

TypeNameBytes == [t \in Types |->
  CASE t = "null" -> K_null
    [] t = "bool" -> <<98, 111, 111, 108>>
    [] t = "int" -> <<105, 110, 116>>
    [] t = "float" -> <<102, 108, 111, 97, 116>>
    [] t = "decimal" -> <<100, 101, 99, 105, 109, 97, 108>>
    [] t = "timestamp" -> <<116, 105, 109, 101, 115, 116, 97, 109, 112>>
    [] t = "symbol" -> <<115, 121, 109, 98, 111, 108>>
    [] t = "string" -> <<115, 116, 114, 105, 110, 103>>
    [] t = "clob" -> <<99, 108, 111, 98>>
    [] t = "blob" -> <<98, 108, 111, 98>>
    [] t = "list" -> <<108, 105, 115, 116>>
    [] t = "sexp" -> <<115, 101, 120, 112>>
    [] t = "struct" -> <<115, 116, 114, 117, 99, 116>>]

\* $<digits> : a symbol ID reference (returns -1 when id is not of that shape, Huge when enormous)
SidOfIdent(id) ==
  IF Len(id) >= 2 /\ id[1] = 36 /\ \A i \in 2..Len(id) : IsDigit(id[i])
  THEN ToSmall(FromDec([i \in 1..(Len(id) - 1) |-> id[i + 1] - 48]))
  ELSE -1

\* $ion_<digits>_<digits>
IsVersionMarkerShape(id) ==
  /\ Len(id) >= 8 /\ SubSeq(id, 1, 5) = <<36, 105, 111, 110, 95>>
  /\ LET rest == SubSeq(id, 6, Len(id))
         u == SelectInSeq(rest, LAMBDA c : c = 95)
     IN /\ u > 1 /\ u < Len(rest)
        /\ \A i \in 1..Len(rest) : i = u \/ IsDigit(rest[i])

\* the token an identifier denotes under ctx: [ok, tok]
IdentToken(id, ctx, at) ==
  LET sid == SidOfIdent(id)
  IN IF sid = -1 THEN [ok |-> TRUE, tok |-> TextTok(id)]
     ELSE IF sid >= Huge THEN Rej("limit: symbol id of 2^30 or more", at)
     ELSE IF ~ValidSid(ctx, sid) THEN Rej("symbol id beyond max_id", at)
     ELSE [ok |-> TRUE, tok |-> Resolve(ctx, sid)]

\* operator run starting at p (stops before a comment start)
RECURSIVE OpEnd(_, _)
OpEnd(bs, p) == IF IsOp(At(bs, p)) /\ ~IsCommentStart(bs, p) THEN OpEnd(bs, p + 1) ELSE p

(***************************************************************************)
(* Values                                                                  *)
(*                                                                         *)
(* ParseValue(bs, p, ctx, inSexp, anns): p is at the first character of a  *)
(* value (whitespace already skipped).  [ok, v, next] or Rej.              *)
(***************************************************************************)
RECURSIVE ParseValue(_, _, _, _, _), ParseList(_, _, _, _, _), ParseSexp(_, _, _, _),
          ParseStruct(_, _, _, _, _)

WithAnn(r, anns) == IF ~r.ok THEN r ELSE [r EXCEPT !.v = [r.v EXCEPT !.ann = anns]]

\* after a symbol-ish token ending at q: is it an annotation (followed by ::)?  -> index after :: or 0
AfterDoubleColon(bs, q) ==
  LET w == SkipWs(bs, q)
  IN IF w.ok /\ At(bs, w.next) = 58 /\ At(bs, w.next + 1) = 58 THEN w.next + 2 ELSE 0

\* continue after an annotation token
AnnotThen(bs, dc, ctx, inSexp, anns, tok) ==
  LET w == SkipWs(bs, dc)
  IN IF ~w.ok THEN w
     ELSE IF At(bs, w.next) = EOFc \/ At(bs, w.next) \in {93, 41, 125, 44, 58}
          THEN Rej("annotation without a value", w.next)
     ELSE ParseValue(bs, w.next, ctx, inSexp, Append(anns, tok))

ParseValue(bs, p, ctx, inSexp, anns) ==
  LET c == At(bs, p)
  IN
  IF c = 34 THEN
       LET r == ParseString(bs, p)
       IN IF ~r.ok THEN r ELSE [ok |-> TRUE, v |-> Val("string", anns, r.bytes), next |-> r.next]
  ELSE IF IsTriple(bs, p) THEN
       LET r == ParseString(bs, p)
       IN IF ~r.ok THEN r ELSE [ok |-> TRUE, v |-> Val("string", anns, r.bytes), next |-> r.next]
  ELSE IF c = 39 THEN
       LET r == ParseQuotedSymbol(bs, p)
       IN IF ~r.ok THEN r
          ELSE LET dc == AfterDoubleColon(bs, r.next)
               IN IF dc # 0 THEN AnnotThen(bs, dc, ctx, inSexp, anns, TextTok(r.bytes))
                  ELSE [ok |-> TRUE, v |-> Val("symbol", anns, TextTok(r.bytes)), next |-> r.next]
  ELSE IF c = 123 THEN
       IF At(bs, p + 1) = 123 THEN WithAnn(ParseLob(bs, p), anns)
       ELSE LET w == SkipWs(bs, p + 1)
            IN IF ~w.ok THEN w ELSE WithAnn(ParseStruct(bs, w.next, ctx, <<>>, TRUE), anns)
  ELSE IF c = 91 THEN
       LET w == SkipWs(bs, p + 1)
       IN IF ~w.ok THEN w ELSE WithAnn(ParseList(bs, w.next, ctx, <<>>, TRUE), anns)
  ELSE IF c = 40 THEN
       LET w == SkipWs(bs, p + 1)
       IN IF ~w.ok THEN w ELSE WithAnn(ParseSexp(bs, w.next, ctx, <<>>), anns)
  ELSE IF c \in {43, 45} /\ Len(bs) >= p + 3 /\ SubSeq(bs, p + 1, p + 3) = K_inf
          /\ EndsScalar(bs, p + 4) THEN
       [ok |-> TRUE, next |-> p + 4,
        v |-> Val("float", anns, IF c = 43 THEN <<127, 240, 0, 0, 0, 0, 0, 0>>
                                          ELSE <<255, 240, 0, 0, 0, 0, 0, 0>>)]
  ELSE IF IsDigit(c) \/ (c = 45 /\ IsDigit(At(bs, p + 1))) THEN
       LET e == TokenEnd(bs, p)
           r == ParseNumberTok(SubSeq(bs, p, e - 1))
       IN IF ~r.ok THEN [r EXCEPT !.at = p]
          ELSE IF ~EndsScalar(bs, e) THEN Rej("number not followed by a stop character", e)
          ELSE [ok |-> TRUE, v |-> [r.v EXCEPT !.ann = anns], next |-> e]
  ELSE IF IsIdStart(c) THEN
       LET e  == IdentEnd(bs, p)
           id == SubSeq(bs, p, e - 1)
       IN IF id = K_null THEN
               IF At(bs, e) = 46 THEN
                    LET te == IdentEnd(bs, e + 1)
                        tn == SubSeq(bs, e + 1, te - 1)
                    IN IF \E t \in Types : TypeNameBytes[t] = tn
                       THEN [ok |-> TRUE, next |-> te,
                             v |-> NullVal(CHOOSE t \in Types : TypeNameBytes[t] = tn, anns)]
                       ELSE Rej("null. followed by something that is not a type name", e)
               ELSE [ok |-> TRUE, v |-> NullVal("null", anns), next |-> e]
          ELSE IF id = K_true THEN [ok |-> TRUE, v |-> Val("bool", anns, TRUE), next |-> e]
          ELSE IF id = K_false THEN [ok |-> TRUE, v |-> Val("bool", anns, FALSE), next |-> e]
          ELSE IF id = K_nan THEN [ok |-> TRUE, v |-> Val("float", anns, NaNBits), next |-> e]
          ELSE
          LET t  == IdentToken(id, ctx, p)
              dc == AfterDoubleColon(bs, e)
          IN IF ~t.ok THEN t
             ELSE IF dc # 0 THEN AnnotThen(bs, dc, ctx, inSexp, anns, t.tok)
             ELSE [ok |-> TRUE, v |-> Val("symbol", anns, t.tok), next |-> e]
  ELSE IF IsOp(c) /\ inSexp THEN
       LET e == OpEnd(bs, p)
       IN [ok |-> TRUE, v |-> Val("symbol", anns, TextTok(SubSeq(bs, p, e - 1))), next |-> e]
  ELSE IF c = EOFc THEN Rej("input ends where a value is expected", p)
  ELSE Rej("unexpected character where a value is expected", p)

\* p is past whitespace, at an element or at ]
ParseList(bs, p, ctx, acc, first) ==
  IF At(bs, p) = 93 THEN [ok |-> TRUE, v |-> Val("list", <<>>, acc), next |-> p + 1]
  ELSE IF At(bs, p) = EOFc THEN Rej("unterminated list", p)
  ELSE
  LET r == ParseValue(bs, p, ctx, FALSE, <<>>)
  IN IF ~r.ok THEN r
     ELSE LET w == SkipWs(bs, r.next)
          IN IF ~w.ok THEN w
             ELSE IF At(bs, w.next) = 93
                  THEN [ok |-> TRUE, v |-> Val("list", <<>>, Append(acc, r.v)), next |-> w.next + 1]
             ELSE IF At(bs, w.next) = 44 THEN
                  LET w2 == SkipWs(bs, w.next + 1)
                  IN IF ~w2.ok THEN w2
                     ELSE IF At(bs, w2.next) = 44 THEN Rej("empty list element", w2.next)
                     ELSE ParseList(bs, w2.next, ctx, Append(acc, r.v), FALSE)
             ELSE IF At(bs, w.next) = EOFc THEN Rej("unterminated list", w.next)
             ELSE Rej("list elements must be separated by commas", w.next)

ParseSexp(bs, p, ctx, acc) ==
  IF At(bs, p) = 41 THEN [ok |-> TRUE, v |-> Val("sexp", <<>>, acc), next |-> p + 1]
  ELSE IF At(bs, p) = EOFc THEN Rej("unterminated sexp", p)
  ELSE
  LET r == ParseValue(bs, p, ctx, TRUE, <<>>)
  IN IF ~r.ok THEN r
     ELSE LET w == SkipWs(bs, r.next)
          IN IF ~w.ok THEN w ELSE ParseSexp(bs, w.next, ctx, Append(acc, r.v))

\* a field name at p: [ok, tok, next]
ParseFieldName(bs, p, ctx) ==
  LET c == At(bs, p)
  IN IF c = 34 \/ IsTriple(bs, p) THEN
          LET r == ParseString(bs, p)
          IN IF ~r.ok THEN r ELSE [ok |-> TRUE, tok |-> TextTok(r.bytes), next |-> r.next]
     ELSE IF c = 39 THEN
          LET r == ParseQuotedSymbol(bs, p)
          IN IF ~r.ok THEN r ELSE [ok |-> TRUE, tok |-> TextTok(r.bytes), next |-> r.next]
     ELSE IF IsIdStart(c) THEN
          LET e == IdentEnd(bs, p)
              id == SubSeq(bs, p, e - 1)
          IN IF id \in Keywords THEN Rej("keyword used as a field name", p)
             ELSE LET t == IdentToken(id, ctx, p)
                  IN IF ~t.ok THEN t ELSE [ok |-> TRUE, tok |-> t.tok, next |-> e]
     ELSE IF c = EOFc THEN Rej("unterminated struct", p)
     ELSE Rej("unexpected character where a field name is expected", p)

ParseStruct(bs, p, ctx, acc, first) ==
  IF At(bs, p) = 125 THEN [ok |-> TRUE, v |-> Val("struct", <<>>, acc), next |-> p + 1]
  ELSE
  LET f == ParseFieldName(bs, p, ctx)
  IN IF ~f.ok THEN f
     ELSE
     LET w == SkipWs(bs, f.next)
     IN IF ~w.ok THEN w
        ELSE IF At(bs, w.next) # 58 \/ At(bs, w.next + 1) = 58 THEN Rej("field name must be followed by a single colon", w.next)
        ELSE
        LET w2 == SkipWs(bs, w.next + 1)
        IN IF ~w2.ok THEN w2
           ELSE IF At(bs, w2.next) \in {125, 44} THEN Rej("field name without a value", w2.next)
           ELSE
           LET r == ParseValue(bs, w2.next, ctx, FALSE, <<>>)
           IN IF ~r.ok THEN r
              ELSE
              LET w3 == SkipWs(bs, r.next)
                  fld == [name |-> f.tok, val |-> r.v]
              IN IF ~w3.ok THEN w3
                 ELSE IF At(bs, w3.next) = 125
                      THEN [ok |-> TRUE, v |-> Val("struct", <<>>, Append(acc, fld)), next |-> w3.next + 1]
                 ELSE IF At(bs, w3.next) = 44 THEN
                      LET w4 == SkipWs(bs, w3.next + 1)
                      IN IF ~w4.ok THEN w4
                         ELSE IF At(bs, w4.next) = 44 THEN Rej("empty struct member", w4.next)
                         ELSE ParseStruct(bs, w4.next, ctx, Append(acc, fld), FALSE)
                 ELSE IF At(bs, w3.next) = EOFc THEN Rej("unterminated struct", w3.next)
                 ELSE Rej("struct members must be separated by commas", w3.next)

(***************************************************************************)
(* Top level                                                               *)
(***************************************************************************)
IsIVMValue(bs, p, v, next) ==      \* unannotated, unquoted $ion_1_0
  /\ v.t = "symbol" /\ ~v.null /\ v.ann = <<>>
  /\ At(bs, p) = 36 /\ SubSeq(bs, p, next - 1) = T_ion_1_0

RECURSIVE TextTop(_, _, _, _, _)
TextTop(bs, p, ctx, cat, forest) ==
  LET w == SkipWs(bs, p)
  IN IF ~w.ok THEN w
     ELSE IF w.next > Len(bs) THEN [ok |-> TRUE, forest |-> forest, ctx |-> ctx]
     ELSE
     LET r == ParseValue(bs, w.next, ctx, FALSE, <<>>)
     IN IF ~r.ok THEN r
        ELSE IF IsIVMValue(bs, w.next, r.v, r.next) THEN TextTop(bs, r.next, SystemSlots, cat, forest)
        ELSE IF r.v.t = "symbol" /\ ~r.v.null /\ r.v.ann = <<>> /\ At(bs, w.next) = 36
                /\ IsVersionMarkerShape(SubSeq(bs, w.next, r.next - 1))
             THEN Rej("open: version marker other than $ion_1_0", w.next)
        ELSE IF IsLST(r.v) THEN
             LET a == ApplyLST(r.v, ctx, cat)
             IN IF ~a.ok THEN [a EXCEPT !.at = w.next] ELSE TextTop(bs, r.next, a.ctx, cat, forest)
        ELSE TextTop(bs, r.next, ctx, cat, Append(forest, r.v))

TextDecodeCat(bs, cat) == TextTop(bs, 1, SystemSlots, cat, <<>>)
TextDecode(bs) == TextDecodeCat(bs, <<>>)
=============================================================================
