------------------------------ MODULE IonText ------------------------------
EXTENDS IonData
TextDecode(bs) == [ok |-> FALSE, why |-> "text decoder not built yet", at |-> 0]
=============================================================================
