---------------------------- MODULE Gen_Malformed ----------------------------
(***************************************************************************)
(* GEN for C07: spec-invalidating edits of valid documents.                *)
(*  - truncation at every byte offset (sampled for long documents)         *)
(*  - one byte replaced by a value from a role alphabet (tag bytes, length *)
(*    bytes, delimiters, quotes, escapes, digits)                          *)
(*  - the hand-enumerated MalformedCatalogue                               *)
(* Each edited document is CLASSIFIED by the specification's decoder:      *)
(* "reject" cases are the must-fail cases; "accept" cases still denote a   *)
(* forest (kept as positive controls); "open" cases are never judged.      *)
(***************************************************************************)
EXTENDS IonText, MalformedCatalogue, Json, TLC
CONSTANTS BaseFile, StreamFile, OutFile, MaxTrunc, Mutations

Bases   == ndJsonDeserialize(BaseFile)       \* [fmt, bytes]
Streams == ndJsonDeserialize(StreamFile)     \* [s]
Rs(st, i) == st[((i - 1) % Len(st)) + 1]

BinAlphabet == <<0, 1, 14, 15, 16, 17, 18, 31, 32, 33, 46, 47, 48, 49, 63, 64, 67, 68, 72, 79, 80, 96, 111, 112, 113,
                 127, 128, 129, 132, 142, 143, 176, 177, 190, 191, 192, 208, 209, 222, 223, 224, 225, 227, 234, 238, 239, 240, 255>>
\*   " ' \ { } [ ] ( ) , : / * . - + _ 0 1 9 a e d T Z x n $ space LF NUL 0xFF 0xC3
TextAlphabet == <<34, 39, 92, 123, 125, 91, 93, 40, 41, 44, 58, 47, 42, 46, 45, 43, 95, 48, 49, 57, 97, 101, 100, 84, 90,
                  120, 110, 36, 32, 10, 0, 255, 195>>

Classify(fmt, bs) ==
  LET d == IF fmt = "binary" THEN BinDecode(bs, <<>>) ELSE TextDecode(bs)
  IN IF d.ok THEN [expect |-> "accept", forest |-> d.forest, why |-> "", inlst |-> FALSE]
     ELSE [expect |-> "reject", forest |-> <<>>, why |-> d.why,
           \* the malformation sits inside a local symbol table, most of which a Reader may skip unread
           inlst |-> fmt = "binary" /\ LooksLikeLST(bs, d.top)]

Case(fmt, edit, bs) == LET c == Classify(fmt, bs)
                       IN [fmt |-> fmt, edit |-> edit, bytes |-> bs, expect |-> c.expect, forest |-> c.forest,
                           why |-> c.why, inlst |-> c.inlst]

\* truncation offsets of a document of length n under stream st
TruncPoints(n, st) == IF n - 1 <= MaxTrunc THEN [k \in 1..(n - 1) |-> k]
                      ELSE [k \in 1..MaxTrunc |-> (Rs(st, k) % (n - 1)) + 1]

EditsOf(b, st) ==
  LET n  == Len(b.bytes)
      alpha == IF b.fmt = "binary" THEN BinAlphabet ELSE TextAlphabet
      lo == IF b.fmt = "binary" THEN 5 ELSE 1          \* keep the leading version marker intact for mutations
      tp == IF n <= 1 THEN <<>> ELSE TruncPoints(n, st)
      tr == [k \in 1..Len(tp) |-> Case(b.fmt, "truncate", SubSeq(b.bytes, 1, tp[k]))]
      mu == IF n < lo THEN <<>>
            ELSE [k \in 1..Mutations |->
                    LET pos == lo + (Rs(st, 100 + 2 * k) % (n - lo + 1))
                        val == alpha[(Rs(st, 101 + 2 * k) % Len(alpha)) + 1]
                    IN Case(b.fmt, "mutate", [b.bytes EXCEPT ![pos] = val])]
  IN tr \o mu

Edited == FlattenSeq([i \in 1..Len(Bases) |-> EditsOf(Bases[i], Streams[((i - 1) % Len(Streams)) + 1].s)])
Listed == [i \in 1..Len(BadText) |-> Case("text", "catalogue", BadText[i].bytes)]
          \o [i \in 1..Len(BadBinary) |-> Case("binary", "catalogue", BadBinary[i].bytes)]

ASSUME ndJsonSerialize(OutFile, Listed \o Edited)
=============================================================================
