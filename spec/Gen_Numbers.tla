---------------------------- MODULE Gen_Numbers ----------------------------
(* GEN for C13: integers around every width boundary, rendered in binary (minimal and zero-padded) *)
(* and in text (decimal, hexadecimal, binary); one value of every type and every typed null for the *)
(* accessor matrix.  Each case: [kind, v |-> expected value, bytes |-> the document].               *)
EXTENDS Catalogue, IonBinaryEnc, Json, TLC
CONSTANTS StreamFile, OutFile, ForestFile, All16, BigTable
Streams == ndJsonDeserialize(StreamFile)

Ks == <<7, 8, 14, 15, 16, 21, 22, 23, 24, 28, 31, 32, 35, 40, 42, 48, 49, 56, 62, 63, 64, 65, 70, 72, 77, 80>>
Around(p) == <<Sub(p, <<2>>), Sub(p, <<1>>), p, Add(p, <<1>>), Add(p, <<2>>)>>
BMags == FlattenSeq([i \in 1..Len(Ks) |-> Around(Pow2(Ks[i]))]) \o << <<>>, <<1>>, <<2>> >>
RandMags == [i \in 1..Len(Streams) |-> Strip(GenBytes(Streams[i].s, 2, (Streams[i].s[1] % 12) + 1))]
Mags16 == IF All16 THEN [i \in 1..65536 |-> FromSmall(i - 1)]
          ELSE [i \in 1..Len(Streams) |-> FromSmall(Streams[i].s[20] % 65536)]
Mags == BMags \o RandMags \o Mags16
Ints == FlattenSeq([i \in 1..Len(Mags) |->
           IF Mags[i] = <<>> THEN <<IntVal(FALSE, <<>>)>> ELSE <<IntVal(FALSE, Mags[i]), IntVal(TRUE, Mags[i])>>])

Zero1 == <<0>>
DigitChar(d) == IF d < 10 THEN 48 + d ELSE 87 + d
HexDigits(mag) == LET all == FlattenSeq([i \in 1..Len(mag) |-> <<mag[i] \div 16, mag[i] % 16>>])
                      f == SelectInSeq(all, LAMBDA x : x # 0)
                  IN IF f = 0 THEN <<0>> ELSE SubSeq(all, f, Len(all))
BinDigits(mag) == LET all == FlattenSeq([i \in 1..Len(mag) |-> Bits(mag[i], 8)])
                      f == SelectInSeq(all, LAMBDA x : x # 0)
                  IN IF f = 0 THEN <<0>> ELSE SubSeq(all, f, Len(all))
DecDigits(mag) == IF mag = <<>> THEN <<0>> ELSE ToDec(mag)
Chars(ds) == [i \in 1..Len(ds) |-> DigitChar(ds[i])]
Sign(iv) == IF iv.neg THEN <<45>> ELSE <<>>

Renderings(v) ==
  LET iv == v.v
      T  == IF iv.neg THEN 3 ELSE 2
  IN << [kind |-> "int-bin-min",    v |-> v, bytes |-> BVM \o Header(T, Len(iv.mag), 0) \o iv.mag],
        [kind |-> "int-bin-padded", v |-> v, bytes |-> BVM \o Header(T, Len(iv.mag) + 1, 0) \o <<0>> \o iv.mag],
        [kind |-> "int-bin-L14",    v |-> v, bytes |-> BVM \o Header(T, Len(iv.mag), 1) \o iv.mag],
        \* a magnitude field of 9 and of 16 bytes whatever the value (leading zero bytes are legal): a reader that holds
        \* long fields as big integers must still answer by value
        [kind |-> "int-bin-padded9", v |-> v, bytes |-> LET z == IF Len(iv.mag) < 9 THEN 9 - Len(iv.mag) ELSE 1
                                                        IN BVM \o Header(T, Len(iv.mag) + z, 0) \o [k \in 1..z |-> 0] \o iv.mag],
        [kind |-> "int-bin-padded16", v |-> v, bytes |-> LET z == IF Len(iv.mag) < 16 THEN 16 - Len(iv.mag) ELSE 2
                                                         IN BVM \o Header(T, Len(iv.mag) + z, 0) \o [k \in 1..z |-> 0] \o iv.mag],
        [kind |-> "int-text-dec",   v |-> v, bytes |-> Sign(iv) \o Chars(DecDigits(iv.mag))],
        [kind |-> "int-text-hex",   v |-> v, bytes |-> Sign(iv) \o <<48, 120>> \o Chars(HexDigits(iv.mag))],
        [kind |-> "int-text-bin",   v |-> v, bytes |-> Sign(iv) \o <<48, 98>> \o Chars(BinDigits(iv.mag))] >>

IntCases == FlattenSeq([i \in 1..Len(Ints) |-> Renderings(Ints[i])])

\* accessor matrix: every typed null and one non-null value of every type, in binary
MatrixVals == NullCatalogue \o << Val("bool", <<>>, TRUE), IntVal(TRUE, <<5>>), FloatCatalogue[4], DecCatalogue[3],
                                  TsCatalogue[8], StringCatalogue[3], SymbolCatalogue[3], LobCatalogue[3],
                                  LobCatalogue[18], Val("list", <<>>, <<IntVal(FALSE, <<1>>)>>),
                                  Val("sexp", <<>>, <<>>), Val("struct", <<>>, <<>>) >>
MatrixCases == [i \in 1..Len(MatrixVals) |->
                  [kind |-> "matrix", v |-> MatrixVals[i], bytes |-> EncodeStream(<<MatrixVals[i]>>, <<5>>)]]

ASSUME ndJsonSerialize(OutFile, IntCases \o MatrixCases)

(* ---- forests for the write-then-read half: float width classes, long lengths, large symbol IDs ---- *)
FExps  == <<0, 1, 873, 874, 896, 897, 1022, 1023, 1024, 1150, 1151, 2046, 2047>>
FMants == << Zeros(52), Zeros(51) \o <<1>>, Zeros(23) \o <<1>> \o Zeros(28), Zeros(22) \o <<1>> \o Zeros(29),
             Zeros(23) \o [i \in 1..29 |-> 1], <<1>> \o Zeros(51), [i \in 1..52 |-> 1],
             [i \in 1..23 |-> 1] \o Zeros(29), <<0, 1>> \o Zeros(50) >>
FloatOf(sign, e, m) == Val("float", <<>>, CanonFloat(PackBytes(<<sign>> \o Bits(e, 11) \o m)))
FloatClasses == FlattenSeq([s \in 1..2 |-> FlattenSeq([e \in 1..Len(FExps) |->
                   [m \in 1..Len(FMants) |-> FloatOf(s - 1, FExps[e], FMants[m])]])])
RandFloats == [i \in 1..Len(Streams) |-> Val("float", <<>>, CanonFloat(GenBytes(Streams[i].s, 30, 8)))]
FloatForests == [i \in 1..(Len(FloatClasses) \div 4) |->
                   [kind |-> "float-classes", forest |-> SubSeq(FloatClasses, 4 * i - 3, 4 * i)]]
                \o [i \in 1..(Len(RandFloats) \div 4) |->
                   [kind |-> "float-random", forest |-> SubSeq(RandFloats, 4 * i - 3, 4 * i)]]

LongPayload(n) == <<>> \o [i \in 1..n |-> 97 + (i % 26)]
LenForests == FlattenSeq([k \in 1..4 |->
   LET n == <<127, 128, 16383, 16384>>[k]
       p == LongPayload(n)
   IN << [kind |-> "long-string", forest |-> <<Val("string", <<>>, p), IntVal(FALSE, <<7>>)>>],
         [kind |-> "long-lobs",   forest |-> <<Val("blob", <<>>, p), Val("clob", AnnA, p)>>],
         [kind |-> "long-symbol", forest |-> <<Val("symbol", <<>>, TextTok(p)),
                                               Val("struct", <<>>, << [name |-> TextTok(p), val |-> IntVal(TRUE, <<1>>)] >>)>>],
         [kind |-> "long-list",   forest |-> <<Val("list", <<TextTok(p)>>, <<Val("string", <<>>, SubSeq(p, 1, n - 3))>>),
                                               Val("sexp", <<>>, <<Val("blob", <<>>, SubSeq(p, 1, n - 2))>>)>>] >>])
\* many distinct symbols: symbol IDs cross the 1-, 2- (and, with BigTable, 3-byte) VarUInt boundaries
SymText(i) == <<115>> \o Chars(DecDigits(FromSmall(i)))
ManySyms(n) == [kind |-> "many-symbols",
                forest |-> [i \in 1..n |-> IF i % 3 = 0 THEN Val("symbol", <<>>, TextTok(SymText(i)))
                                           ELSE IF i % 3 = 1 THEN Val("int", <<TextTok(SymText(i))>>, [neg |-> FALSE, mag |-> <<1>>])
                                           ELSE Val("struct", <<>>, << [name |-> TextTok(SymText(i)), val |-> NullVal("null", <<>>)] >>)]]
SymForests == <<ManySyms(130), ManySyms(300)>> \o (IF BigTable THEN <<ManySyms(16500)>> ELSE <<>>)

ASSUME ndJsonSerialize(ForestFile, FloatForests \o LenForests \o SymForests)
=============================================================================
