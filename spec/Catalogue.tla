----------------------------- MODULE Catalogue -----------------------------
(***************************************************************************)
(* Boundary catalogue of Ion values and a stream-driven generator of value *)
(* forests.  All generation logic lives here, in the specification; the    *)
(* only thing the harness supplies is a stream of natural numbers (seeded  *)
(* by VERIF_SEED) that resolves the specification's choices.               *)
(***************************************************************************)
EXTENDS IonData, BigNat, Utf8, Calendar

Pick(seq, r) == seq[(r % Len(seq)) + 1]

(* ---- integers ---- *)
Pow2(k) == <<2^(k % 8)>> \o [i \in 1..(k \div 8) |-> 0]
BoundaryExps == <<7, 8, 14, 15, 16, 21, 24, 31, 32, 56, 63, 64, 70, 80>>
BoundaryMags == FlattenSeq([i \in 1..Len(BoundaryExps) |->
                   LET p == Pow2(BoundaryExps[i]) IN <<Sub(p, <<1>>), p, Add(p, <<1>>)>>])
SmallMags == << <<>>, <<1>>, <<2>>, <<13>>, <<14>>, <<63>>, <<64>>, <<100>>, <<1, 0>>, <<3, 232>> >>
IntMags == SmallMags \o BoundaryMags
IntVal(neg, mag) == Val("int", <<>>, [neg |-> neg /\ mag # <<>>, mag |-> mag])
IntCatalogue == [i \in 1..(2 * Len(IntMags)) |->
                   IntVal(i > Len(IntMags), IntMags[((i - 1) % Len(IntMags)) + 1])]

(* ---- floats: 8-byte IEEE-754 patterns ---- *)
FloatPatterns == <<
  <<0,0,0,0,0,0,0,0>>, <<128,0,0,0,0,0,0,0>>,                 \* 0e0, -0e0
  <<63,240,0,0,0,0,0,0>>, <<191,248,0,0,0,0,0,0>>,             \* 1e0, -1.5e0
  <<127,239,255,255,255,255,255,255>>,                         \* max float64
  <<0,0,0,0,0,0,0,1>>, <<0,15,255,255,255,255,255,255>>,       \* min / max subnormal
  <<0,16,0,0,0,0,0,0>>,                                        \* min normal
  <<127,240,0,0,0,0,0,0>>, <<255,240,0,0,0,0,0,0>>,            \* +inf, -inf
  <<127,248,0,0,0,0,0,0>>,                                     \* nan
  <<63,185,153,153,153,153,153,154>>,                          \* 0.1
  <<71,239,255,255,224,0,0,0>>,                                \* max float32
  <<71,239,255,255,224,0,0,1>>,                                \* max float32 + 1 ulp64
  <<71,240,0,0,0,0,0,0>>,                                      \* 2^128 (beyond float32)
  <<56,16,0,0,0,0,0,0>>,                                       \* min normal float32 (2^-126)
  <<54,160,0,0,0,0,0,0>>,                                      \* min subnormal float32 (2^-149)
  <<54,144,0,0,0,0,0,0>>,                                      \* 2^-150 (below float32)
  <<63,240,0,0,16,0,0,0>>,                                     \* 1 + 2^-24 : not float32-exact
  <<63,240,0,0,32,0,0,0>>,                                     \* 1 + 2^-23 : float32-exact
  <<84,178,73,173,37,148,195,125>>,                            \* 1e100
  <<43,43,255,47,238,66,248,231>>,                             \* ~1e-100
  <<64,94,221,47,26,159,190,119>>,                             \* 123.456
  <<65,157,111,52,84,0,0,0>>,                                  \* 123456789
  <<67,63,255,255,255,255,255,255>>,                           \* 2^53 - 1
  <<64,9,33,251,84,68,45,24>>                                  \* pi
>>
FloatCatalogue == [i \in 1..Len(FloatPatterns) |-> Val("float", <<>>, FloatPatterns[i])]

(* ---- decimals ---- *)
DecCoefs == << <<>>, <<1>>, <<10>>, <<12>>, <<100>>, <<1, 0>>, <<48, 57>>, <<127>>, <<128>>,
               <<255, 255, 255, 255, 255, 255, 255, 255>>, <<1, 0, 0, 0, 0, 0, 0, 0, 0>> >>
DecExps == <<0, -1, 1, -2, 2, -3, 5, -6, 6, -20, 20, 63, -64, 64, -100, 100>>
DecVal(neg, coef, exp) == Val("decimal", <<>>, [neg |-> neg, coef |-> coef, exp |-> exp])
DecCatalogue == FlattenSeq([i \in 1..Len(DecCoefs) |->
                   [j \in 1..(2 * Len(DecExps)) |->
                       DecVal(j > Len(DecExps), DecCoefs[i], DecExps[((j - 1) % Len(DecExps)) + 1])]])

(* ---- timestamps (UTC fields + offset; see IonData) ---- *)
Ts(y, mo, d, h, mi, s, frac, off, known, prec) ==
  Val("timestamp", <<>>, [y |-> y, mo |-> mo, d |-> d, h |-> h, mi |-> mi, s |-> s, frac |-> frac,
                          off |-> off, known |-> known, prec |-> prec])
TsCatalogue == <<
  Ts(2000, 1, 1, 0, 0, 0, <<>>, 0, FALSE, 1),
  Ts(1, 1, 1, 0, 0, 0, <<>>, 0, FALSE, 1),
  Ts(9999, 12, 1, 0, 0, 0, <<>>, 0, FALSE, 2),
  Ts(2024, 2, 29, 0, 0, 0, <<>>, 0, FALSE, 3),
  Ts(1999, 12, 31, 23, 59, 0, <<>>, 0, TRUE, 4),
  Ts(2000, 1, 1, 0, 0, 0, <<>>, 0, FALSE, 4),
  Ts(2007, 2, 23, 20, 14, 33, <<>>, -480, TRUE, 5),
  Ts(2007, 2, 23, 20, 14, 33, <<0, 7, 9>>, -480, TRUE, 6),
  Ts(2000, 2, 29, 23, 59, 58, <<0, 5, 0>>, -90, TRUE, 6),
  Ts(2001, 1, 1, 0, 0, 0, <<0, 0, 0, 0, 0, 0, 0, 0, 0>>, 0, TRUE, 6),
  Ts(2001, 1, 1, 0, 0, 0, <<9, 9, 9, 9, 9, 9, 9, 9, 9>>, 0, FALSE, 6),
  Ts(2001, 1, 1, 0, 0, 0, <<0, 0, 0, 0, 0, 0, 0, 0, 1>>, 1439, TRUE, 6),
  Ts(2001, 12, 31, 23, 59, 59, <<1>>, -1439, TRUE, 6),
  Ts(1970, 1, 1, 0, 0, 0, <<0>>, 0, TRUE, 6),
  Ts(2020, 6, 30, 12, 30, 15, <<1, 0, 0>>, 60, TRUE, 6),
  Ts(9999, 12, 31, 23, 59, 59, <<9, 9, 9>>, 0, TRUE, 6),
  Ts(1, 1, 1, 0, 0, 0, <<>>, 0, TRUE, 5)
>>

(* ---- text for strings, symbols, field names, annotations ---- *)
Rep(c, n) == [i \in 1..n |-> c]
Texts == <<
  <<97>>, <<>>, <<97, 98, 99>>,
  <<110, 117, 108, 108>>, <<116, 114, 117, 101>>, <<102, 97, 108, 115, 101>>, <<110, 97, 110>>,   \* null true false nan
  <<36, 53>>, <<36, 48>>, <<36, 49, 48>>, <<36, 105, 111, 110>>,                                   \* $5 $0 $10 $ion
  <<43>>, <<43, 105, 110, 102>>, <<45>>, <<46>>, <<47, 47>>, <<47, 42>>,                           \* + +inf - . // /*
  <<97, 32, 98>>, <<97, 39, 98>>, <<97, 34, 98>>, <<97, 92, 98>>, <<97, 10, 98>>, <<97, 13, 10, 98>>, \* a b a'b a"b a\b a<LF>b a<CR><LF>b
  <<9>>, <<0>>, <<1>>, <<7, 8, 11, 12, 27, 31, 127>>,
  <<39, 39, 39>>, <<34>>, <<39>>, <<123, 123>>, <<125, 125>>, <<93>>, <<41>>, <<58, 58>>, <<58>>, <<44>>,
  <<49>>, <<49, 97>>, <<45, 49>>, <<48, 120, 49>>, <<50, 48, 48, 48, 84>>,                          \* 1 1a -1 0x1 2000T
  <<95, 97>>, <<65, 95, 57>>, <<36, 36>>, <<36, 97>>,
  <<195, 169>>, <<226, 130, 172>>, <<240, 159, 152, 128>>, <<239, 191, 191>>, <<244, 143, 191, 191>>, <<194, 128>>,
  <<36, 105, 111, 110, 95, 115, 121, 109, 98, 111, 108, 95, 116, 97, 98, 108, 101>>,               \* $ion_symbol_table
  <<36, 105, 111, 110, 95, 49, 95, 48>>,                                                           \* $ion_1_0
  <<110, 97, 109, 101>>,                                                                           \* name (system symbol)
  Rep(120, 13), Rep(120, 14), Rep(121, 127), Rep(121, 128)
>>
LongTexts == << Rep(122, 16383), Rep(122, 16384) >>

StringCatalogue == [i \in 1..Len(Texts) |-> Val("string", <<>>, Texts[i])]
SymbolCatalogue == [i \in 1..Len(Texts) |-> Val("symbol", <<>>, TextTok(Texts[i]))]

(* ---- lobs ---- *)
AllBytes == [i \in 1..256 |-> i - 1]
LobBodies == << <<>>, <<0>>, <<1, 2>>, <<1, 2, 3>>, <<255, 254, 253, 252>>, <<0, 34, 125, 255>>,
                <<125, 125>>, <<39, 39, 39>>, <<92>>, <<10, 13>>, AllBytes, Rep(65, 13), Rep(66, 14),
                Rep(67, 127), Rep(68, 128) >>
LobCatalogue == [i \in 1..(2 * Len(LobBodies)) |->
                   Val(IF i > Len(LobBodies) THEN "clob" ELSE "blob", <<>>,
                       LobBodies[((i - 1) % Len(LobBodies)) + 1])]

NullCatalogue == [i \in 1..13 |-> NullVal(TypeSeq[i], <<>>)]
BoolCatalogue == << Val("bool", <<>>, TRUE), Val("bool", <<>>, FALSE) >>

Scalars == NullCatalogue \o BoolCatalogue \o IntCatalogue \o FloatCatalogue \o DecCatalogue
           \o TsCatalogue \o StringCatalogue \o SymbolCatalogue \o LobCatalogue

(***************************************************************************)
(* Exhaustive part: one boundary feature in one slot.                      *)
(***************************************************************************)
AnnA == <<TextTok(<<97>>)>>
InList(v)   == Val("list", <<>>, <<v>>)
InSexp(v)   == Val("sexp", <<>>, <<v, v>>)
InStruct(v) == Val("struct", <<>>, << [name |-> TextTok(<<102>>), val |-> v] >>)
Annotated(v, anns) == [v EXCEPT !.ann = anns]

IntOne == Val("int", <<>>, [neg |-> FALSE, mag |-> <<1>>])
SlotCases ==
  \* every scalar at top level, annotated, and inside each container kind
  [i \in 1..Len(Scalars) |-> <<Scalars[i]>>]
  \o [i \in 1..Len(Scalars) |-> <<Annotated(Scalars[i], AnnA)>>]
  \o [i \in 1..Len(Scalars) |-> <<InList(Scalars[i]), InSexp(Scalars[i]), InStruct(Scalars[i])>>]
  \* every text as annotation and as field name
  \o [i \in 1..Len(Texts) |-> <<Annotated(Val("int", <<>>, [neg |-> FALSE, mag |-> <<1>>]), <<TextTok(Texts[i])>>),
                                Val("struct", <<>>, << [name |-> TextTok(Texts[i]),
                                                        val |-> Annotated(Val("bool", <<>>, TRUE), <<TextTok(Texts[i]), TextTok(<<98>>)>>)] >>)>>]
  \* annotated containers, empty containers, typed-null containers, nesting
  \o << <<Val("list", AnnA, <<>>), Val("sexp", AnnA, <<>>), Val("struct", AnnA, <<>>)>>,
        <<Val("list", <<>>, <<Val("list", <<>>, <<Val("sexp", <<>>, <<Val("struct", <<>>, <<>>)>>)>>)>>)>>,
        <<>> >>

\* forests used by the writer round trips only (C01, C04, ...)
NestedLong == <<
        \* a scalar of more than 64 KiB READ (not skipped) inside a container, followed by siblings and top-level values
        <<Val("list", <<>>, <<Val("string", <<>>, Rep(122, 72000)), IntOne>>), IntOne, IntOne>>,
        <<Val("struct", <<>>, << [name |-> TextTok(<<97>>), val |-> Val("blob", <<>>, Rep(7, 66000))], [name |-> TextTok(<<98>>), val |-> IntOne] >>), IntOne>>,
        \* a CHILD container whose content crosses the 2-byte / 3-byte length boundary (16383, 16384 bytes and more),
        \* inside a parent, annotated, and as a struct field, followed by another value
        <<Val("list", <<>>, <<Val("list", <<>>, <<Val("string", <<>>, Rep(122, 16380))>>), IntOne>>), IntOne>>,
        <<Val("list", <<>>, <<Val("list", <<>>, <<Val("string", <<>>, Rep(122, 16381))>>), IntOne>>), IntOne>>,
        <<Val("sexp", <<>>, <<Val("list", <<>>, <<Val("string", <<>>, Rep(122, 16384))>>), IntOne>>), IntOne>>,
        <<Val("struct", <<>>, << [name |-> TextTok(<<97>>), val |-> Val("struct", <<>>, << [name |-> TextTok(<<98>>), val |-> Val("blob", <<>>, Rep(7, 20000))] >>)],
                                [name |-> TextTok(<<99>>), val |-> IntOne] >>), IntOne>>,
        <<Val("list", <<>>, <<Val("sexp", AnnA, <<Val("clob", <<>>, Rep(65, 16390))>>), IntOne>>), IntOne>>
  >>


(***************************************************************************)
(* Random part: forests driven by a stream of naturals.                    *)
(* G(st, i, depth) returns [v, i] where i is the next unread stream index. *)
(***************************************************************************)
R(st, i) == st[((i - 1) % Len(st)) + 1]

GenTok(st, i) == TextTok(Pick(Texts, R(st, i)))

GenAnn(st, i) ==       \* 0, 1 or 2 annotations (mostly none)
  LET k == R(st, i) % 8
  IN IF k < 5 THEN [a |-> <<>>, i |-> i + 1]
     ELSE IF k < 7 THEN [a |-> <<GenTok(st, i + 1)>>, i |-> i + 2]
     ELSE [a |-> <<GenTok(st, i + 1), GenTok(st, i + 2)>>, i |-> i + 3]

\* a random valid timestamp
GenTs(st, i) ==
  LET y  == Pick(<<2, 4, 100, 400, 1900, 1999, 2000, 2023, 2024, 9998>>, R(st, i))
      mo == (R(st, i + 1) % 12) + 1
      d  == Pick(<<1, 15, DaysIn(y, mo)>>, R(st, i + 2))
      h  == Pick(<<0, 12, 23>>, R(st, i + 3))
      mi == Pick(<<0, 34, 59>>, R(st, i + 4))
      s  == Pick(<<0, 56, 59>>, R(st, i + 5))
      prec == (R(st, i + 6) % 6) + 1
      nf == (R(st, i + 7) % 9) + 1
      frac == [k \in 1..nf |-> Pick(<<0, 0, 1, 9, 5>>, R(st, i + 8 + k))]
      off == Pick(<<0, 0, 1, -1, 60, -60, 330, -480, 720, -720, 1439, -1439>>, R(st, i + 8))
      known == (R(st, i + 18) % 4) # 0
  IN IF prec = 1 THEN Ts(y, 1, 1, 0, 0, 0, <<>>, 0, FALSE, 1)
     ELSE IF prec = 2 THEN Ts(y, mo, 1, 0, 0, 0, <<>>, 0, FALSE, 2)
     ELSE IF prec = 3 THEN Ts(y, mo, d, 0, 0, 0, <<>>, 0, FALSE, 3)
     ELSE Ts(y, mo, d, h, mi, IF prec = 4 THEN 0 ELSE s, IF prec = 6 THEN frac ELSE <<>>,
             IF known THEN off ELSE 0, known, prec)

GenBytes(st, i, n) == [k \in 1..n |-> R(st, i + k) % 256]

RECURSIVE G(_, _, _)
GenKids(st, i, depth, n, struct) ==
  LET step(acc, k) ==
        LET nm == GenTok(st, acc.i)
            r  == G(st, acc.i + 1, depth + 1)
        IN [items |-> Append(acc.items, IF struct THEN [name |-> nm, val |-> r.v] ELSE r.v), i |-> r.i]
  IN FoldLeft(step, [items |-> <<>>, i |-> i], [k \in 1..n |-> k])

G(st, i, depth) ==
  LET an == GenAnn(st, i)
      j  == an.i
      kind == R(st, j) % (IF depth >= 3 THEN 12 ELSE 16)
      sel == R(st, j + 1)
  IN CASE kind = 0 -> [v |-> Annotated(Pick(NullCatalogue, sel), an.a), i |-> j + 2]
       [] kind = 1 -> [v |-> Annotated(Pick(BoolCatalogue, sel), an.a), i |-> j + 2]
       [] kind = 2 -> [v |-> Annotated(Pick(IntCatalogue, sel), an.a), i |-> j + 2]
       [] kind = 3 -> [v |-> Annotated(IntVal(R(st, j + 2) % 2 = 1, Strip(GenBytes(st, j + 2, (sel % 12) + 1))), an.a),
                       i |-> j + 15]
       [] kind = 4 -> [v |-> Annotated(Pick(FloatCatalogue, sel), an.a), i |-> j + 2]
       [] kind = 5 -> [v |-> Val("float", an.a, CanonFloat(GenBytes(st, j + 1, 8))), i |-> j + 10]
       [] kind = 6 -> [v |-> Annotated(Pick(DecCatalogue, sel), an.a), i |-> j + 2]
       [] kind = 7 -> [v |-> Annotated(IF sel % 2 = 0 THEN Pick(TsCatalogue, R(st, j + 2)) ELSE GenTs(st, j + 2), an.a),
                       i |-> j + 22]
       [] kind = 8 -> [v |-> Annotated(Pick(StringCatalogue, sel), an.a), i |-> j + 2]
       [] kind = 9 -> [v |-> Annotated(Pick(SymbolCatalogue, sel), an.a), i |-> j + 2]
       [] kind = 10 -> [v |-> Annotated(Pick(LobCatalogue, sel), an.a), i |-> j + 2]
       [] kind = 11 -> [v |-> Val(IF sel % 2 = 0 THEN "blob" ELSE "clob", an.a, GenBytes(st, j + 2, R(st, j + 2) % 20)),
                        i |-> j + 23]
       [] OTHER ->
            LET n == sel % 4
                t == Pick(<<"list", "sexp", "struct", "struct">>, kind)
                r == GenKids(st, j + 2, depth, n, t = "struct")
            IN [v |-> Val(t, an.a, r.items), i |-> r.i]

\* A top-level struct whose first annotation is $ion_symbol_table IS a local symbol table, not a
\* user value; the generator of user values must not produce one.
TopOK(v) == IF v.t = "struct" /\ v.ann # <<>> /\ v.ann[1] = TextTok(T_ion_symbol_table)
            THEN [v EXCEPT !.ann = <<>>] ELSE v

\* a forest of 1..4 top-level values
GenForest(st) ==
  LET n == (R(st, 1) % 4) + 1
      step(acc, k) == LET r == G(st, acc.i, 0) IN [items |-> Append(acc.items, TopOK(r.v)), i |-> r.i]
  IN FoldLeft(step, [items |-> <<>>, i |-> 2], [k \in 1..n |-> k]).items
=============================================================================
