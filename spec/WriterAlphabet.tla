-------------------------- MODULE WriterAlphabet --------------------------
(***************************************************************************)
(* The call alphabet for exploring the Writer protocol.  Each entry is a   *)
(* call record understood by WriterProto!Step and by the Go harness        *)
(* (m = Go method name).  Tokens: "a" is inside the fixed table of the     *)
(* binlst configuration, "zz" is outside it, $4 is a system symbol id,     *)
(* Bad has neither text nor id.                                            *)
(***************************************************************************)
EXTENDS WriterProto

A_  == TextTok(<<97>>)
ZZ_ == TextTok(<<122, 122>>)
S4_ == SidTok(4)

Long130 == <<>> \o [i \in 1..130 |-> 120]     \* (\o forces an explicit tuple: states are written to disk)
IntV(neg, mag) == Val("int", <<>>, [neg |-> neg, mag |-> mag])

Alphabet == <<
  [op |-> "FieldName",  m |-> "FieldName",  tok |-> A_],                         \*  1
  [op |-> "Annotation", m |-> "Annotation", tok |-> A_],                         \*  2
  [op |-> "Scalar", m |-> "WriteInt", v |-> IntV(FALSE, <<1>>)],                 \*  3
  [op |-> "WriteSymbol", m |-> "WriteSymbol", tok |-> A_],                       \*  4
  [op |-> "WriteSymbol", m |-> "WriteSymbol", tok |-> BadTok],                   \*  5
  [op |-> "Scalar", m |-> "WriteNull", v |-> NullVal("null", <<>>)],             \*  6
  [op |-> "Scalar", m |-> "WriteString", v |-> Val("string", <<>>, Long130)],    \*  7  (pushes container bodies past 127 bytes)
  [op |-> "Begin", m |-> "BeginList", kind |-> "list"],                          \*  8
  [op |-> "End", m |-> "EndList", kind |-> "list"],                              \*  9
  [op |-> "Begin", m |-> "BeginStruct", kind |-> "struct"],                      \* 10
  [op |-> "End", m |-> "EndStruct", kind |-> "struct"],                          \* 11
  [op |-> "Begin", m |-> "BeginSexp", kind |-> "sexp"],                          \* 12
  [op |-> "End", m |-> "EndSexp", kind |-> "sexp"],                              \* 13
  [op |-> "Finish", m |-> "Finish"],                                             \* 14
  \* ---- beyond the reduced alphabet ----
  [op |-> "FieldName",  m |-> "FieldName",  tok |-> ZZ_],                        \* 15
  [op |-> "FieldName",  m |-> "FieldName",  tok |-> BadTok],                     \* 16
  [op |-> "FieldName",  m |-> "FieldName",  tok |-> S4_],                        \* 17
  [op |-> "Annotation", m |-> "Annotation", tok |-> ZZ_],                        \* 18
  [op |-> "Annotation", m |-> "Annotation", tok |-> BadTok],                     \* 19
  [op |-> "Annotation", m |-> "Annotation", tok |-> S4_],                        \* 20
  [op |-> "Annotations", m |-> "Annotations", toks |-> <<A_, S4_>>],             \* 21
  [op |-> "WriteSymbol", m |-> "WriteSymbol", tok |-> ZZ_],                      \* 22
  [op |-> "WriteSymbol", m |-> "WriteSymbol", tok |-> S4_],                      \* 23
  [op |-> "WriteSymbol", m |-> "WriteSymbolFromString", tok |-> A_],             \* 24
  [op |-> "WriteSymbol", m |-> "WriteSymbolFromString", tok |-> ZZ_],            \* 25
  [op |-> "Scalar", m |-> "WriteBool", v |-> Val("bool", <<>>, TRUE)],           \* 26
  [op |-> "Scalar", m |-> "WriteNullType", v |-> NullVal("struct", <<>>)],       \* 27
  [op |-> "Scalar", m |-> "WriteUint", v |-> IntV(FALSE, <<255, 255>>)],         \* 28
  [op |-> "Scalar", m |-> "WriteBigInt", v |-> IntV(TRUE, <<1, 0, 0, 0, 0, 0, 0, 0, 0>>)], \* 29
  [op |-> "Scalar", m |-> "WriteFloat", v |-> Val("float", <<>>, <<63, 248, 0, 0, 0, 0, 0, 0>>)], \* 30
  [op |-> "Scalar", m |-> "WriteDecimal", v |-> Val("decimal", <<>>, [neg |-> TRUE, coef |-> <<>>, exp |-> -2])], \* 31
  [op |-> "Scalar", m |-> "WriteTimestamp", v |-> Val("timestamp", <<>>,
        [y |-> 2000, mo |-> 2, d |-> 29, h |-> 23, mi |-> 59, s |-> 58, frac |-> <<0, 5, 0>>,
         off |-> -90, known |-> TRUE, prec |-> 6])],                             \* 32
  [op |-> "Scalar", m |-> "WriteClob", v |-> Val("clob", <<>>, <<0, 34, 125, 255>>)],   \* 33
  [op |-> "Scalar", m |-> "WriteBlob", v |-> Val("blob", <<>>, <<1, 2, 3, 4>>)],        \* 34
  [op |-> "Scalar", m |-> "WriteString", v |-> Val("string", <<>>, <<115>>)],           \* 35
  [op |-> "Scalar", m |-> "WriteClob", v |-> Val("clob", <<>>, <<>> \o [i \in 1..200 |-> 65 + (i % 26)])]  \* 36
>>

Reduced == 1..14
Full    == 1..Len(Alphabet)
\* below the first error the error state is absorbing: only probe with these calls
AfterErr == {3, 14}
=============================================================================
