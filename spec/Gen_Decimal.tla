----------------------------- MODULE Gen_Decimal -----------------------------
(* GEN for C14: a grid of decimals (every relation between digit count, sign and scale), all ordered     *)
(* pairs of a sub-grid for the binary operations, stream-driven big operands, single-operand extremes.   *)
EXTENDS Decimal, SequencesExt, Json, TLC
CONSTANTS StreamFile, OutFile, PairStride
Streams == ndJsonDeserialize(StreamFile)
R(st, i) == st[((i - 1) % Len(st)) + 1]

D(neg, n, e) == [neg |-> neg, coef |-> FromSmall(n), exp |-> e]
Coefs == <<0, 1, 2, 5, 6, 8, 9, 10, 12, 64, 99, 100, 101, 512, 600, 999, 1000, 12345>>
Exps  == <<-6, -5, -4, -3, -2, -1, 0, 1, 2, 3, 6>>
Grid  == FlattenSeq([c \in 1..Len(Coefs) |-> FlattenSeq([e \in 1..Len(Exps) |->
            <<D(FALSE, Coefs[c], Exps[e]), D(TRUE, Coefs[c], Exps[e])>>])])     \* includes negative zeros
BigDec(st, i) == [neg |-> R(st, i) % 2 = 1,
                  coef |-> Strip([k \in 1..((R(st, i + 1) % 24) + 1) |-> R(st, i + 2 + k) % 256]),
                  exp |-> (R(st, i + 30) % 81) - 40]
Extremes == << D(FALSE, 1, 1000000000), D(TRUE, 7, -1000000000), D(FALSE, 0, 1000000000), D(TRUE, 0, -999999999),
               D(FALSE, 123, 2147483), D(TRUE, 123, -2147483) >>

BigExp == << D(FALSE, 1, 2000000000), D(TRUE, 7, 1000000000), D(FALSE, 11, 2147483647), D(FALSE, 13, 147483647), D(FALSE, 3, 147483648),
            D(TRUE, 1, 0 - 2000000000), D(FALSE, 7, 0 - 1000000000), D(FALSE, 11, 0 - 2147483647), D(TRUE, 5, 0 - 147483647), D(FALSE, 2, 5) >>
ZeroPairs == << <<D(FALSE, 0, 3), D(FALSE, 15, 0 - 1)>>, <<D(FALSE, 0, 0), D(TRUE, 7, 0 - 2)>>, <<D(TRUE, 0, 2), D(FALSE, 123, 0)>>,
               <<D(FALSE, 0, 5), D(FALSE, 1, 5)>>, <<D(FALSE, 0, 1), D(FALSE, 0, 0 - 1)>> >>
Unary(a) == << [op |-> "Neg", a |-> a], [op |-> "Abs", a |-> a], [op |-> "Sign", a |-> a], [op |-> "String", a |-> a],
               [op |-> "ShiftL", a |-> a, n |-> 0], [op |-> "ShiftL", a |-> a, n |-> 5], [op |-> "ShiftR", a |-> a, n |-> 1],
               [op |-> "ShiftR", a |-> a, n |-> 9], [op |-> "Truncate", a |-> a, n |-> 1], [op |-> "Truncate", a |-> a, n |-> 2],
               [op |-> "Truncate", a |-> a, n |-> 3], [op |-> "Truncate", a |-> a, n |-> 6] >>
Binary(a, b) == << [op |-> "Add", a |-> a, b |-> b], [op |-> "Sub", a |-> a, b |-> b], [op |-> "Mul", a |-> a, b |-> b],
                   [op |-> "Cmp", a |-> a, b |-> b], [op |-> "Equal", a |-> a, b |-> b] >>

\* the same value in another representation (coefficient x 10^k, exponent - k) and its neighbours in the last place:
\* comparison must not depend on how a value is written
RECURSIVE TenTo(_)
TenTo(k) == IF k = 0 THEN 1 ELSE 10 * TenTo(k - 1)
Rescaled == FlattenSeq(FlattenSeq([c \in 1..Len(Coefs) |-> [k \in 1..3 |->
              LET a  == D(FALSE, Coefs[c], 0)   na == D(TRUE, Coefs[c], 0)
                  b0 == D(FALSE, Coefs[c] * TenTo(k), 0 - k)
                  b1 == D(FALSE, Coefs[c] * TenTo(k) + 1, 0 - k)
                  nb == D(TRUE, Coefs[c] * TenTo(k), 0 - k)
                  up == D(FALSE, Coefs[c] + 1, 0)
              IN << [op |-> "Cmp", a |-> a, b |-> b0], [op |-> "Equal", a |-> a, b |-> b0], [op |-> "Cmp", a |-> b0, b |-> a],
                    [op |-> "Cmp", a |-> a, b |-> b1], [op |-> "Equal", a |-> a, b |-> b1], [op |-> "Cmp", a |-> b1, b |-> up],
                    [op |-> "Cmp", a |-> up, b |-> b0], [op |-> "Cmp", a |-> na, b |-> nb], [op |-> "Equal", a |-> nb, b |-> na],
                    [op |-> "Cmp", a |-> nb, b |-> D(TRUE, Coefs[c] + 1, 0)] >>]]))

\* every PairStride-th ordered pair of the grid, starting at the stream's offset (all pairs when PairStride = 1)
NG == Len(Grid)
Off == R(Streams[1].s, 1) % PairStride
PairIdx == {k \in 0..(NG * NG - 1) : k % PairStride = Off}
Pairs == SetToSeq(PairIdx)

\* (LET binds the grid and the pair list once; TLC would otherwise re-evaluate them at every use)
Cases ==
  LET g == Grid
      n == Len(g)
      ps == Pairs
  IN FlattenSeq([i \in 1..n |-> Unary(g[i])])
     \o Rescaled
     \o FlattenSeq([i \in 1..Len(Extremes) |-> SubSeq(Unary(Extremes[i]), 1, 4)])
     \* products at the edge of the exponent range: representable ones must be exact, the others refused
     \o FlattenSeq([i \in 1..Len(BigExp) |-> [j \in 1..Len(BigExp) |-> [op |-> "Mul", a |-> BigExp[i], b |-> BigExp[j]]]])
     \* a zero receiver or argument at a higher exponent than the other operand, twice in a row (an operand that is
     \* changed by the first operation shows in the second)
     \o FlattenSeq([i \in 1..Len(ZeroPairs) |-> <<[op |-> "Add", a |-> ZeroPairs[i][1], b |-> ZeroPairs[i][2]],
                                                    [op |-> "Add", a |-> ZeroPairs[i][2], b |-> ZeroPairs[i][1]],
                                                    [op |-> "Sub", a |-> ZeroPairs[i][1], b |-> ZeroPairs[i][2]]>>])
     \o FlattenSeq([k \in 1..Len(ps) |-> Binary(g[(ps[k] \div n) + 1], g[(ps[k] % n) + 1])])
     \o FlattenSeq([i \in 1..Len(Streams) |-> Binary(BigDec(Streams[i].s, 1), BigDec(Streams[i].s, 40))
                                              \o Unary(BigDec(Streams[i].s, 80))])
ASSUME ndJsonSerialize(OutFile, Cases)
=============================================================================
