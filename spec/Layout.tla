------------------------------- MODULE Layout -------------------------------
(***************************************************************************)
(* Layout of the pretty text writer (beyond the listed properties).        *)
(*   SameTokens : the pretty output and the compact output of the same     *)
(*                values are the same bytes once white space outside       *)
(*                quoted text is removed (pretty printing adds layout, not *)
(*                content)                                                 *)
(*   IndentOK   : every line starts with exactly one tab per container     *)
(*                open at that point (a line that starts with a closing    *)
(*                bracket belongs to the enclosing level), and no line     *)
(*                ends in white space                                      *)
(* A scanner state: q = 0 outside quotes, 34 inside "...", 39 inside '...';*)
(* esc = the previous byte was a backslash inside quotes.                  *)
(***************************************************************************)
EXTENDS Naturals, Sequences, SequencesExt

IsWs(b) == b \in {32, 9, 10, 13}
Opens(b) == b \in {91, 40, 123}
Closes(b) == b \in {93, 41, 125}

ScanStep(st, b) ==
  IF st.q # 0 THEN
     IF st.esc THEN [st EXCEPT !.esc = FALSE]
     ELSE IF b = 92 THEN [st EXCEPT !.esc = TRUE]
     ELSE IF b = st.q THEN [st EXCEPT !.q = 0]
     ELSE st
  ELSE IF b \in {34, 39} THEN [st EXCEPT !.q = b] ELSE st

StripWs(bs) ==
  LET step(acc, b) == LET st == ScanStep(acc.st, b)
                      IN [st |-> st, out |-> IF acc.st.q = 0 /\ IsWs(b) THEN acc.out ELSE Append(acc.out, b)]
  IN FoldLeft(step, [st |-> [q |-> 0, esc |-> FALSE], out |-> <<>>], bs).out
SameTokens(pretty, compact) == StripWs(pretty) = StripWs(compact)

\* acc: scanner state, depth, at line start (counting tabs), tabs seen on this line, last byte, ok
IndentOK(bs) ==
  LET step(acc, b) ==
        LET st == ScanStep(acc.st, b)
            outside == acc.st.q = 0
        IN IF ~acc.ok THEN acc
           ELSE IF acc.bol /\ b = 9 THEN [acc EXCEPT !.tabs = @ + 1, !.last = b]
           ELSE IF outside /\ b = 10 THEN
                   [acc EXCEPT !.bol = TRUE, !.tabs = 0, !.last = b, !.ok = ~(acc.last \in {32, 9})]
           ELSE LET want == IF outside /\ Closes(b) /\ acc.depth > 0 THEN acc.depth - 1 ELSE acc.depth
                    okhere == ~acc.bol \/ acc.tabs = want
                    d2 == IF outside /\ Opens(b) THEN acc.depth + 1
                          ELSE IF outside /\ Closes(b) /\ acc.depth > 0 THEN acc.depth - 1 ELSE acc.depth
                IN [acc EXCEPT !.st = st, !.bol = FALSE, !.depth = d2, !.last = b, !.ok = okhere]
      r == FoldLeft(step, [st |-> [q |-> 0, esc |-> FALSE], depth |-> 0, bol |-> TRUE, tabs |-> 0, last |-> 10, ok |-> TRUE], bs)
  IN r.ok /\ r.depth = 0
=============================================================================
