------------------------------- MODULE Hostile -------------------------------
(***************************************************************************)
(* Grammar-aware hostile inputs (C06): documents built to sit on the       *)
(* boundaries of the formats rather than valid or randomly broken ones.    *)
(*   text   every typed null and a set of odd scalars in every slot of a   *)
(*          local symbol table (and as annotation / field name / value);   *)
(*          extreme literals (HostileFragments!TextExtremes)               *)
(*   binary for every type code: every length nibble with a body of zeros  *)
(*          and of ones; declared lengths 2^(7k)-1, 2^(7k), unterminated   *)
(*          VarUInts, at top level, in a list, in a struct, in a wrapper;  *)
(*          every typed null and odd scalars in every slot of a binary     *)
(*          symbol table; decimal and timestamp-fraction exponents at and  *)
(*          beyond the int32 / int64 boundaries with zero, negative-zero    *)
(*          and non-zero coefficients; timestamp components out of range;  *)
(*          symbol IDs up to and beyond 2^64 as values, field names,       *)
(*          annotations; nested containers                                 *)
(*   reps   pre unit^n post families (expanded by the worker)              *)
(* Byte values are built directly (no number above 2^31 is ever computed). *)
(***************************************************************************)
EXTENDS Naturals, Sequences, SequencesExt, HostileFragments

BVM == <<224, 1, 0, 234>>
Cat(ss) == FlattenSeq(ss)

\* ---------------------------------------------------------------- VarUInt / VarInt shapes
RECURSIVE G7(_)
G7(n) == IF n < 128 THEN <<n>> ELSE Append(G7(n \div 128), n % 128)
VU(n) == LET g == G7(n) IN [i \in 1..Len(g) |-> IF i = Len(g) THEN g[i] + 128 ELSE g[i]]      \* n < 2^31
Ones(k) == [i \in 1..k |-> IF i = k THEN 255 ELSE 127]                                        \* 2^(7k) - 1
Pow(k) == [i \in 1..k |-> IF k = 1 THEN 129 ELSE IF i = 1 THEN 1 ELSE IF i = k THEN 128 ELSE 0]  \* 2^(7(k-1))
Open(k) == [i \in 1..k |-> 127]                                                               \* never terminated
Padded(k) == [i \in 1..k |-> IF i = k THEN 128 ELSE 0]                                        \* zero, over-long
Near64(d) == <<1, 127, 127, 127, 127, 127, 127, 127, 127, 128 + (128 - d)>>                   \* 2^64 - d, 1 <= d <= 128
LengthShapes == [k \in 1..11 |-> Ones(k)] \o [k \in 1..9 |-> Pow(k + 1)] \o <<Open(3), Open(12), Padded(1), Padded(3), <<141>>, <<142>>, <<143>>, <<129>>>>
                \o <<Near64(1), Near64(4), Near64(5), Near64(12), Near64(16), Near64(128), <<1, 0, 0, 0, 0, 0, 0, 0, 0, 129>>, <<0, 127, 127, 127, 127, 127, 127, 127, 127, 255>>>>

\* signed: bit 6 of the first byte is the sign
SOnes(k, neg) == [i \in 1..k |-> (IF i = 1 THEN (IF neg THEN 64 ELSE 0) + 63 ELSE 127) + (IF i = k THEN 128 ELSE 0)]
Int32Edge == << <<7, 127, 127, 127, 255>>, <<8, 0, 0, 0, 128>>, <<8, 0, 0, 0, 129>>,                    \* 2^31-1, 2^31, 2^31+1
                <<71, 127, 127, 127, 255>>, <<72, 0, 0, 0, 128>>, <<72, 0, 0, 0, 129>>,                 \* the negatives
                <<128>>, <<192>>, <<129>>, <<193>>, <<148>>, <<149>>, <<212>>, <<213>>, <<0, 61, 9, 128>> \* 0, -0, 1, -1, 20, 21, -20, -21, 1,000,000... (padded)
             >>
ExpShapes == [k \in 1..10 |-> SOnes(k, FALSE)] \o [k \in 1..10 |-> SOnes(k, TRUE)] \o Int32Edge \o << <<2, 110, 54, 128>>, <<66, 110, 54, 128>> >>  \* +-6,000,000
Coefs == << <<>>, <<0>>, <<128>>, <<1>>, <<129>>, <<127, 255, 255, 255>>, <<255, 255, 255, 255, 255, 255, 255, 255, 255>> >>

\* ---------------------------------------------------------------- binary builders
V(T, body) == IF Len(body) < 14 THEN <<T * 16 + Len(body)>> \o body ELSE <<T * 16 + 14>> \o VU(Len(body)) \o body
HV(T, lenbytes) == <<T * 16 + 14>> \o lenbytes
BNull(T) == <<T * 16 + 15>>
BStr(b) == V(8, b)
BList(items) == V(11, Cat(items))
BStruct(fields) == V(13, Cat([i \in 1..Len(fields) |-> VU(fields[i][1]) \o fields[i][2]]))
BAnn(sids, v) == LET a == Cat([i \in 1..Len(sids) |-> VU(sids[i])]) IN V(14, VU(Len(a)) \o a \o v)
Sym(n) == <<113, n>>
A == <<97>>  B_ == <<98>>  T_ == <<84>>
Trailer == Sym(10) \o BAnn(<<11>>, Sym(12)) \o BStruct(<< <<12, Sym(1)>> >>) \o Sym(4)
Rep(b, n) == Cat([i \in 1..n |-> b])

\* ---------------------------------------------------------------- families
Case(label, fmt, core, bytes) == [label |-> label, fmt |-> fmt, core |-> core, bytes |-> bytes]

TextSlotCases == Cat([s \in 1..Len(TextSlots) |-> [x \in 1..Len(TextInserts) |->
                    Case("text: " \o TextSlots[s].label, "text", x <= NTypedNulls, TextSlots[s].pre \o TextInserts[x] \o TextSlots[s].post)]])
TextExtremeCases == [i \in 1..Len(TextExtremes) |-> Case("text: extreme literal", "text", TRUE, TextExtremes[i])]

\* every type code x every short length x body of zeros / ones
ShortBodies == Cat(Cat([T1 \in 1..16 |-> [L1 \in 1..14 |-> LET T == T1 - 1  L == L1 - 1 IN
                  <<Case("binary: short form, zeros", "binary", L <= 2, BVM \o <<T * 16 + L>> \o Rep(<<0>>, L)),
                    Case("binary: short form, ones", "binary", L <= 2, BVM \o <<T * 16 + L>> \o Rep(<<255>>, L)),
                    Case("binary: short form, no body", "binary", FALSE, BVM \o <<T * 16 + L>>)>>]]))

\* declared lengths
InContext(c, v) == CASE c = 1 -> v \o <<97, 97, 97>>
                     [] c = 2 -> <<190>> \o Ones(2) \o v \o <<97, 97, 97>>           \* inside a list declaring 16383 bytes
                     [] c = 3 -> <<222>> \o Ones(2) \o <<132>> \o v \o <<97, 97, 97>>  \* inside a struct, field name $4
                     [] c = 4 -> <<238>> \o Ones(2) \o <<129, 132>> \o v \o <<97, 97>> \* inside an annotation wrapper
                     [] c = 5 -> <<180>> \o v \o <<97, 97, 97>>                        \* inside a list of 4 bytes
                     [] c = 6 -> <<190>> \o Ones(5) \o v \o <<97, 97, 97>>             \* inside a list declaring 2^35 - 1 bytes
                     [] c = 7 -> <<190>> \o Ones(9) \o v \o <<97, 97, 97>>             \* inside a list declaring 2^63 - 1 bytes
                     [] c = 8 -> <<222>> \o Ones(5) \o <<132>> \o v \o <<97, 97>>      \* inside a struct declaring 2^35 - 1 bytes
DeclaredLengths == Cat(Cat([T1 \in 1..16 |-> [s \in 1..Len(LengthShapes) |-> [c \in 1..8 |->
                      Case("binary: declared length", "binary", c = 1 /\ s \in {1, 5, 9, 10, 32, 34}, BVM \o InContext(c, HV(T1 - 1, LengthShapes[s])))]]]))

\* a binary local symbol table with a hole
OddValues == [T \in 1..16 |-> BNull(T - 1)]
             \o << <<32>>, <<33, 1>>, <<36, 127, 255, 255, 255>>, <<36, 128, 0, 0, 0>>, <<40, 127, 255, 255, 255, 255, 255, 255, 255>>,
                   <<40, 128, 0, 0, 0, 0, 0, 0, 0>>, <<40, 255, 255, 255, 255, 255, 255, 255, 255>>, <<41, 1, 0, 0, 0, 0, 0, 0, 0, 0>>,
                   <<46, 144>> \o Rep(<<255>>, 16), <<49, 1>>, <<56, 255, 255, 255, 255, 255, 255, 255, 255>>, <<128>>, BStr(T_), BStr(<<255>>),
                   <<112>>, Sym(0), Sym(3), Sym(10), Sym(99), <<176>>, BList(<<BNull(8)>>), BList(<<BList(<<BStr(A)>>)>>), <<208>>, <<192>>, <<64>>,
                   <<72, 127, 248, 0, 0, 0, 0, 0, 1>>, <<80>>, <<98, 128, 143>>, <<16>>, <<17>>, <<160>>, <<144>>, BStruct(<< <<4, BStr(T_)>> >>),
                   BList(<<BStruct(<< <<4, BNull(8)>>, <<5, BNull(2)>>, <<8, BNull(2)>> >>)>>), BAnn(<<3>>, <<208>>) >>
One == <<33, 1>>  Two == <<33, 2>>
SymsA == <<7, BList(<<BStr(A)>>)>>
BinSlot(k, x) ==
  CASE k = 1 -> BAnn(<<3>>, x)
    [] k = 2 -> BAnn(<<3>>, BStruct(<< <<7, x>> >>))
    [] k = 3 -> BAnn(<<3>>, BStruct(<< <<7, BList(<<BStr(A), x, BStr(B_)>>)>> >>))
    [] k = 4 -> BAnn(<<3>>, BStruct(<< <<6, x>>, SymsA >>))
    [] k = 5 -> BAnn(<<3>>, BStruct(<< <<6, BList(<<x>>)>>, SymsA >>))
    [] k = 6 -> BAnn(<<3>>, BStruct(<< <<6, BList(<<BStruct(<< <<4, x>>, <<5, One>>, <<8, Two>> >>)>>)>>, SymsA >>))
    [] k = 7 -> BAnn(<<3>>, BStruct(<< <<6, BList(<<BStruct(<< <<4, BStr(T_)>>, <<5, x>>, <<8, Two>> >>)>>)>>, SymsA >>))
    [] k = 8 -> BAnn(<<3>>, BStruct(<< <<6, BList(<<BStruct(<< <<4, BStr(T_)>>, <<5, One>>, <<8, x>> >>)>>)>>, SymsA >>))
    [] k = 9 -> BAnn(<<3>>, BStruct(<< SymsA >>)) \o BAnn(<<3>>, BStruct(<< <<6, Sym(3)>>, <<7, x>> >>))
    [] k = 10 -> BStruct(<< <<4, x>> >>)
BinSlotNames == <<"whole table", "symbols", "symbols element", "imports", "imports element", "import name", "import version", "import max_id",
                  "symbols of an appending table", "plain struct field">>
BinSlotCases == Cat([k \in 1..10 |-> [x \in 1..Len(OddValues) |->
                   Case("binary: " \o BinSlotNames[k], "binary", x <= 16, BVM \o BinSlot(k, OddValues[x]) \o Trailer)]])

\* decimals and timestamp fractions
Decimals == Cat([e \in 1..Len(ExpShapes) |-> [c \in 1..Len(Coefs) |->
               Case("binary: decimal exponent", "binary", c <= 3, BVM \o V(5, ExpShapes[e] \o Coefs[c]))]])
TsBase == <<128, 15, 208, 129, 129, 128, 128, 128>>        \* offset 0, 2000-01-01T00:00:00
TsFractions == Cat([e \in 1..Len(ExpShapes) |-> [c \in 1..Len(Coefs) |->
               Case("binary: timestamp fraction exponent", "binary", c <= 3, BVM \o V(6, TsBase \o ExpShapes[e] \o Coefs[c]))]])
FieldShapes == << <<128>>, <<129>>, <<255>>, Ones(2), Ones(3), Ones(5), Ones(10), Pow(5), Pow(6), <<8, 0, 0, 0, 128>>, Open(2), <<39, 144>>, <<78, 16 + 128>>, <<0, 141>>, <<156>>, <<157>>, <<158>>, <<159>>, <<152>>, <<188>> >>
TsParts == << <<128>>, <<15, 208>>, <<129>>, <<129>>, <<128>>, <<128>>, <<128>> >>
TsComponents == Cat([p \in 1..7 |-> [f \in 1..Len(FieldShapes) |->
                   Case("binary: timestamp component", "binary", FALSE,
                        BVM \o V(6, Cat([q \in 1..7 |-> IF q = p THEN FieldShapes[f] ELSE TsParts[q]])))]])
                \o Cat([p \in 1..7 |-> [f \in 1..Len(ExpShapes) |->
                   Case("binary: timestamp component (signed shape)", "binary", FALSE,
                        BVM \o V(6, Cat([q \in 1..p |-> IF q = p THEN ExpShapes[f] ELSE TsParts[q]])))]])

\* symbol IDs
SidBodies == << <<>>, <<0>>, <<9>>, <<10>>, <<255, 255, 255, 255>>, <<127, 255, 255, 255, 255, 255, 255, 255>>, <<128, 0, 0, 0, 0, 0, 0, 0>>,
                <<255, 255, 255, 255, 255, 255, 255, 255>>, <<1, 0, 0, 0, 0, 0, 0, 0, 0>>, Rep(<<255>>, 13), Rep(<<0>>, 13) >>
SidShapes == [k \in 1..11 |-> Ones(k)] \o <<Pow(5), Pow(6), Pow(10), Open(2), Padded(2), <<128>>, <<138>>, <<139>>>>
SidCases == [i \in 1..Len(SidBodies) |-> Case("binary: symbol id value", "binary", TRUE, BVM \o V(7, SidBodies[i]) \o Trailer)]
            \o [i \in 1..Len(SidShapes) |-> Case("binary: field symbol id", "binary", TRUE, BVM \o <<222>> \o Ones(1) \o SidShapes[i] \o One \o Trailer)]
            \o [i \in 1..Len(SidShapes) |-> Case("binary: annotation symbol id", "binary", TRUE, BVM \o <<238>> \o Ones(1) \o VU(Len(SidShapes[i])) \o SidShapes[i] \o One \o Trailer)]
            \o [i \in 1..Len(SidShapes) |-> Case("binary: annotation length", "binary", TRUE, BVM \o <<238>> \o Ones(1) \o SidShapes[i] \o <<132>> \o One \o Trailer)]
            \o [i \in 1..Len(SidShapes) |-> Case("binary: import max_id shape", "binary", FALSE,
                   BVM \o BAnn(<<3>>, BStruct(<< <<6, BList(<<BStruct(<< <<4, BStr(T_)>>, <<5, One>>, <<8, V(2, SidShapes[i])>> >>)>>)>> >>)) \o Trailer)]

\* properly nested containers (built inside out)
RECURSIVE Nest(_, _, _)
Nest(T, n, inner) == IF n = 0 THEN inner ELSE Nest(T, n - 1, IF T = 13 THEN V(13, <<132>> \o inner) ELSE V(T, inner))
Nested == << Case("binary: nested lists", "binary", FALSE, BVM \o Nest(11, 600, <<176>>)),
             Case("binary: nested sexps", "binary", FALSE, BVM \o Nest(12, 600, One)),
             Case("binary: nested structs", "binary", FALSE, BVM \o Nest(13, 600, <<208>>)),
             Case("binary: nested annotated lists", "binary", FALSE, BVM \o Nest(11, 40, BAnn(<<4, 5>>, Nest(11, 40, BAnn(<<4>>, <<176>>))))) >>

Lst1 == BAnn(<<3>>, BStruct(<< <<7, BList(<<BStr(<<115>>)>>)>> >>))
LstApp == BAnn(<<3>>, BStruct(<< <<6, Sym(3)>>, <<7, BList(<<BStr(<<115>>)>>)>> >>))
RepCase(label, pre, unit, post, closing) == [label |-> label, fmt |-> "rep", core |-> FALSE, pre |-> pre, unit |-> unit, post |-> post, closing |-> closing]
Reps == [i \in 1..Len(TextReps) |-> RepCase("text rep: " \o TextReps[i].label, TextReps[i].pre, TextReps[i].unit, TextReps[i].post, <<>>)]
        \o << RepCase("text rep: closed lists", <<>>, <<91>>, <<>>, <<93>>), RepCase("text rep: closed sexps", <<>>, <<40>>, <<>>, <<41>>),
              RepCase("text rep: closed structs", <<>>, <<123, 97, 58>>, <<49>>, <<125>>),
              RepCase("binary rep: open lists", BVM, <<190>> \o Ones(4), <<>>, <<>>), RepCase("binary rep: open sexps", BVM, <<206>> \o Ones(4), <<>>, <<>>),
              RepCase("binary rep: open structs", BVM, <<222>> \o Ones(4) \o <<132>>, <<>>, <<>>),
              RepCase("binary rep: nop pads", BVM, <<0>>, One, <<>>), RepCase("binary rep: ints", BVM, One, <<>>, <<>>),
              RepCase("binary rep: version markers", <<>>, BVM, One, <<>>), RepCase("binary rep: tables", BVM, Lst1, Sym(10), <<>>),
              RepCase("binary rep: appending tables", BVM, LstApp, Sym(10), <<>>), RepCase("binary rep: string bytes", BVM \o <<142>> \o Ones(4), <<97>>, <<>>, <<>>),
              RepCase("binary rep: int magnitude", BVM \o <<46>> \o Ones(3), <<255>>, <<>>, <<>>),
              RepCase("binary rep: annotations", BVM \o <<238>> \o Ones(3) \o Ones(2), <<132>>, One, <<>>),
              RepCase("binary rep: struct fields", BVM \o <<222>> \o Ones(3), <<132, 33, 1>>, <<>>, <<>>) >>

Fixed == TextSlotCases \o TextExtremeCases \o ShortBodies \o DeclaredLengths \o BinSlotCases \o Decimals \o TsFractions \o TsComponents \o SidCases \o Nested
=============================================================================
