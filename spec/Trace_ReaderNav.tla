--------------------------- MODULE Trace_ReaderNav ---------------------------
(* Trace validation of real ion.Reader navigation against ReaderNav (C08).  The trace file holds   *)
(* many executions, each starting with a "reset" event carrying the document's forest; every other line is    *)
(* one Reader call with its result and what the Reader showed afterwards.                          *)
EXTENDS ReaderNav, SequencesExt, Json, TLC
CONSTANTS TraceFile, VerdictFile

Trace == ndJsonDeserialize(TraceFile)

VARIABLES s, l, failed, cur
tvars == <<s, l, failed, cur>>
Ev == Trace[l]

NextReset(i) == LET q == SelectInSubSeq(Trace, i + 1, Len(Trace), LAMBDA e : e.e = "reset")
                IN IF q = 0 THEN Len(Trace) + 1 ELSE q

TraceInit == s = InitS /\ l = 1 /\ failed = <<>> /\ cur = [id |-> "", forest |-> <<>>, start |-> 0]

TraceReset == /\ l <= Len(Trace) /\ Ev.e = "reset"
              /\ s' = InitS /\ cur' = [id |-> Ev.id, forest |-> Ev.forest, start |-> l] /\ l' = l + 1 /\ UNCHANGED failed

Why(r, e) == IF e.res = "impure" THEN "what an accessor returns depends on which accessors were called before it"
             ELSE IF r.res # e.res THEN "call returned " \o e.res \o " where the specification requires " \o r.res
             ELSE "the Reader shows something else than the plain traversal at this position"

TraceCall == /\ l <= Len(Trace) /\ Ev.e = "call"
             /\ LET d == cur.forest
                    r == Step(d, s, Ev.op)
                IN IF r.res = Ev.res /\ ObsMatches(Obs(d, r.s), Ev.obs)
                   THEN s' = r.s /\ l' = l + 1 /\ UNCHANGED <<failed, cur>>
                   ELSE /\ failed' = Append(failed, [id |-> cur.id, call |-> l - cur.start, why |-> Why(r, Ev)])
                        /\ l' = NextReset(l) /\ s' = InitS /\ UNCHANGED cur

TraceDone == /\ l = Len(Trace) + 1
             /\ ndJsonSerialize(VerdictFile, <<[events |-> Len(Trace), failed |-> failed]>>)
             /\ l' = l + 1 /\ UNCHANGED <<s, failed, cur>>

TraceNext == TraceReset \/ TraceCall \/ TraceDone
TraceSpec == TraceInit /\ [][TraceNext]_tvars
=============================================================================
