----------------------------- MODULE Judge_Conc -----------------------------
(***************************************************************************)
(* JUDGE for C18.  A gated run's log must be a behaviour of Conc over the  *)
(* programs the same workers perform alone: every logged step is the next  *)
(* step of that worker's solo program (same site, same object), the        *)
(* fingerprint of the shared objects after every step is the one they were *)
(* constructed with (Conc!Immutable), every worker finishes its program,   *)
(* and its output equals its solo output (Conc!SoloEqual).  A free run is  *)
(* judged on outputs and on the final fingerprint.                         *)
(***************************************************************************)
EXTENDS Naturals, Sequences, SequencesExt, Json, TLC
CONSTANTS SoloFile, RunFile, VerdictFile
SoloRows == ndJsonDeserialize(SoloFile)    \* [id, outs, progs, fp0]
Runs     == ndJsonDeserialize(RunFile)     \* [idx, solo (index into SoloRows), runmode, outs, log, fp0, fpend, problem]

RECURSIVE Walk(_, _, _, _, _)
Walk(log, i, pc, progs, fp0) ==
  IF i > Len(log) THEN
     IF \E w \in 1..Len(progs) : pc[w] # Len(progs[w]) + 1 THEN "a worker performed fewer shared accesses than alone" ELSE "ok"
  ELSE LET e == log[i]  w == e.w IN
       IF pc[w] > Len(progs[w]) THEN "a worker performed more shared accesses than alone"
       ELSE IF progs[w][pc[w]].site # e.site \/ progs[w][pc[w]].obj # e.obj THEN "a worker took a different step than alone"
       ELSE IF e.fp # fp0 THEN "shared objects changed after step " \o e.site
       ELSE Walk(log, i + 1, [pc EXCEPT ![w] = @ + 1], progs, fp0)

Why(r) ==
  LET s == SoloRows[r.solo]
  IN IF r.problem # "" THEN r.problem
     ELSE IF r.fp0 # s.fp0 THEN "harness: fresh shared objects differ between runs"
     ELSE IF r.fpend # s.fp0 THEN "shared objects changed"
     ELSE LET w == IF r.runmode = "gated" THEN Walk(r.log, 1, [k \in 1..Len(s.progs) |-> 1], s.progs, s.fp0) ELSE "ok"
          IN IF w # "ok" THEN w
             ELSE IF Len(r.outs) # Len(s.outs) THEN "harness: worker count"
             ELSE IF \E k \in 1..Len(s.outs) : r.outs[k] # s.outs[k] THEN "output differs from the output of the same workload alone"
             ELSE IF s.problem # "" THEN s.problem
             ELSE "ok"
Bad(r) == LET s == SoloRows[r.solo] IN
          IF Len(r.outs) = Len(s.outs) THEN SelectSeq([k \in 1..Len(s.outs) |-> IF r.outs[k] # s.outs[k] THEN k ELSE 0], LAMBDA k : k # 0) ELSE <<>>
ASSUME ndJsonSerialize(VerdictFile, [i \in 1..Len(Runs) |-> [idx |-> Runs[i].idx, why |-> Why(Runs[i]), workers |-> Bad(Runs[i])]])
=============================================================================
