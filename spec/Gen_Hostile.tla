----------------------------- MODULE Gen_Hostile -----------------------------
(* GEN for C06: the hostile catalogue as ndjson (fixed cases) and the repetition families. *)
EXTENDS Hostile, Json, TLC
CONSTANTS OutFile, RepFile
ASSUME ndJsonSerialize(OutFile, Fixed)
ASSUME ndJsonSerialize(RepFile, Reps)
=============================================================================
