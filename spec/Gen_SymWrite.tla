----------------------------- MODULE Gen_SymWrite -----------------------------
(* GEN for C11: binary writers created with shared symbol tables or with a fixed local symbol table,   *)
(* and value sequences that draw symbols from inside and outside those tables in value, field-name and  *)
(* annotation position.  Stream-driven.                                                                 *)
EXTENDS SymTab, SequencesExt, Json, TLC
CONSTANTS StreamFile, OutFile
Streams == ndJsonDeserialize(StreamFile)
R(st, i) == st[((i - 1) % Len(st)) + 1]
PickS(seq, r) == seq[(r % Len(seq)) + 1]

A == <<97>>  B == <<98>>  C == <<99>>  Dd == <<100>>  Long == <<>> \o [i \in 1..20 |-> 101]
TableTexts == <<A, B, C, T_name, Long>>
UseTexts == <<A, B, C, Dd, T_name, Long, <<122, 122>>>>

RandSyms(st, i) == [k \in 1..(R(st, i) % 4) |-> PickS(TableTexts, R(st, i + k))]
Shared(st, i, nm) == [name |-> nm, version |-> 1 + (R(st, i) % 3), syms |-> RandSyms(st, i + 1),
                      adj |-> PickS(<<-1, -1, -1, 0, 1, 2, 5>>, R(st, i + 7))]
Tok(st, i) == TextTok(PickS(UseTexts, R(st, i)))
UserVal(st, i) ==
  LET k == R(st, i) % 4
  IN IF k = 0 THEN Val("symbol", <<>>, Tok(st, i + 1))
     ELSE IF k = 1 THEN Val("int", <<Tok(st, i + 1)>>, [neg |-> FALSE, mag |-> <<7>>])
     ELSE IF k = 2 THEN Val("struct", <<>>, <<[name |-> Tok(st, i + 1), val |-> Val("symbol", <<>>, Tok(st, i + 2))]>>)
     ELSE Val("list", <<Tok(st, i + 1), Tok(st, i + 2)>>, <<Val("symbol", <<>>, Tok(st, i + 3))>>)
Forest(st, i) == [k \in 1..((R(st, i) % 4) + 1) |-> UserVal(st, i + 5 * k)]

CaseOf(st) ==
  LET nimp == R(st, 1) % 3
      imps == [k \in 1..nimp |-> Shared(st, 10 * k, <<115 + k>>)]
  IN IF R(st, 2) % 2 = 0
     THEN [mode |-> "shared", imports |-> IF imps = <<>> THEN <<Shared(st, 10, <<116>>)>> ELSE imps, locals |-> <<>>,
           forest |-> Forest(st, 60),
           \* the writer is also used for two batches: Finish after the first `split` values (0 = one batch)
           split |-> IF R(st, 3) % 3 = 0 THEN R(st, 4) % Len(Forest(st, 60)) ELSE 0,
           foreign |-> R(st, 5) % 2 = 1]
     ELSE [mode |-> "fixed", imports |-> imps, locals |-> RandSyms(st, 40), forest |-> Forest(st, 60),
           split |-> IF R(st, 3) % 3 = 0 THEN R(st, 4) % Len(Forest(st, 60)) ELSE 0,
           \* the tokens handed to the writer also carry a symbol ID from some other table (as tokens copied from a
           \* Reader do); the writer must go by the text
           foreign |-> R(st, 5) % 2 = 1]
ASSUME ndJsonSerialize(OutFile, [i \in 1..Len(Streams) |-> CaseOf(Streams[i].s)])
=============================================================================
