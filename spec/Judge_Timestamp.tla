--------------------------- MODULE Judge_Timestamp ---------------------------
(* JUDGE for C15: String() is a valid Ion literal that denotes exactly the timestamp (the specification's  *)
(* text decoder), ParseTimestamp of that text and of the specification's own spelling give it back         *)
(* (instant, offset, known/unknown, precision, fraction digits); long fractions round to the nearest ns.   *)
EXTENDS IonText, Json, TLC
CONSTANTS ObsFile, CaseFile, VerdictFile
Obs   == ndJsonDeserialize(ObsFile)
Cases == ndJsonDeserialize(CaseFile)

Denotes(text, ts) == LET d == TextDecode(text)
                     IN d.ok /\ Len(d.forest) = 1 /\ d.forest[1].t = "timestamp" /\ ~d.forest[1].null
                        /\ d.forest[1].ann = <<>> /\ d.forest[1].v = ts
Why(o, c) ==
  IF o.panic # "" THEN "panic"
  ELSE IF ~Denotes(o.text, c.ts) THEN "String() is not a literal of this timestamp"
  ELSE IF ~o.parsedok THEN "ParseTimestamp rejects the text String() produced"
  ELSE IF o.parsed # c.ts THEN "ParseTimestamp(String(ts)) differs from ts"
  ELSE IF ~Denotes(c.spelling, c.ts) THEN "SPEC: the printer's spelling does not denote the timestamp"
  ELSE IF ~o.spelledok THEN "ParseTimestamp rejects a valid spelling"
  ELSE IF o.spelled # c.ts THEN "ParseTimestamp of a valid spelling gives another timestamp"
  ELSE "ok"
ASSUME ndJsonSerialize(VerdictFile, [i \in 1..Len(Obs) |-> [idx |-> Obs[i].idx, why |-> Why(Obs[i], Cases[Obs[i].idx])]])
=============================================================================
