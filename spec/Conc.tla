-------------------------------- MODULE Conc --------------------------------
(***************************************************************************)
(* Independent workloads over shared state (C18).                          *)
(*                                                                         *)
(* A workload (a Reader, Writer, Encoder, Decoder, Marshal or Unmarshal    *)
(* call) is a program: the sequence of its accesses to objects that other  *)
(* goroutines can reach - shared symbol tables ("T1", ...), the catalog    *)
(* ("cat"), the system symbol table ("sys"), struct types ("type:...") -   *)
(* one access per call site instrumented by ion.VerifYield.  Everything    *)
(* else a workload touches is private to it ("private", "-").              *)
(*                                                                         *)
(* ion-go has no synchronisation between workloads, so any two steps of    *)
(* different workers may happen in either order or at the same time.  Its  *)
(* design makes that safe by immutability: after construction (which       *)
(* happens before the goroutines start) every instrumented site only       *)
(* READS the shared object.  Sem(site) gives the micro-operations a site   *)
(* performs on its object; the baseline is a single read.  Deviations name *)
(* changes that keep every test passing and break (or keep) the property:  *)
(*   "adjust_in_place"      sst.Adjust overwrites maxID of the shared table*)
(*   "field_cache_unsynced" fieldsFor publishes a per-type cache entry and *)
(*                          fills it afterwards, without a lock            *)
(*   "field_cache_locked"   the same cache filled under a mutex (safe)     *)
(***************************************************************************)
EXTENDS Naturals, Sequences, FiniteSets, SequencesExt
CONSTANTS Progs,        \* Progs[w] : Seq([site, obj])
          Deviations    \* subset of the deviation names above

Workers == 1..Len(Progs)
IsShared(o) == o \notin {"private", "-"}

R(o) == [op |-> "r", obj |-> o]
W(o) == [op |-> "w", obj |-> o]
Lock(o) == [op |-> "lock", obj |-> o]
Unlock(o) == [op |-> "unlock", obj |-> o]

Op(k, o) == [op |-> k, obj |-> o]
\* micro-operations of one instrumented call
\*   r      read the object (what is read determines the worker's output)
\*   w      overwrite it with something new
\*   claim  atomically: if the cache entry of the object is absent, publish an empty one and become its filler
\*   fill   the filler completes the entry (a plain write); anybody else does nothing
\*   lock / unlock  a mutex on the object
Sem(s) ==
  IF ~IsShared(s.obj) THEN <<Op("local", s.obj)>>
  ELSE IF s.site = "sst.Adjust" /\ "adjust_in_place" \in Deviations THEN <<R(s.obj), W(s.obj)>>
  ELSE IF s.site = "fieldsFor" /\ "field_cache_unsynced" \in Deviations THEN <<Op("claim", s.obj), Op("fill", s.obj), R(s.obj)>>
  ELSE IF s.site = "fieldsFor" /\ "field_cache_locked" \in Deviations
       THEN <<Lock(s.obj), Op("claim", s.obj), Op("fill", s.obj), R(s.obj), Unlock(s.obj)>>
  ELSE <<R(s.obj)>>
X == [w \in Workers |-> FlattenSeq([i \in 1..Len(Progs[w]) |-> Sem(Progs[w][i])])]

VARIABLES pc,     \* pc[w]: next micro-operation of worker w
          val,    \* val[o]: abstract content of shared object o (0 as constructed)
          seen,   \* seen[w]: what w has read so far - its output is a function of this
          held,   \* held[o]: the worker holding the mutex of o, or 0
          filler, \* filler[o]: the worker that claimed the cache entry of o and has not filled it yet, or 0
          ops,    \* the constant X and
          solo    \* the constant [w |-> SoloSeen(w)], held in the state so that TLC computes them once
vars == <<pc, val, seen, held, filler, ops, solo>>

AllObjs == UNION {{X[w][i].obj : i \in 1..Len(X[w])} : w \in Workers}
Zero == [o \in AllObjs |-> 0]
\* effect of one micro-operation of worker w on (val, filler); cache states: 0 absent, 1 published empty, 2 filled
ValAfter(s, w, v, f) ==
  CASE s.op = "w" -> [v EXCEPT ![s.obj] = @ + 10]
    [] s.op = "claim" /\ v[s.obj] = 0 -> [v EXCEPT ![s.obj] = 1]
    [] s.op = "fill" /\ f[s.obj] = w -> [v EXCEPT ![s.obj] = 2]
    [] OTHER -> v
FillerAfter(s, w, v, f) ==
  CASE s.op = "claim" /\ v[s.obj] = 0 -> [f EXCEPT ![s.obj] = w]
    [] s.op = "fill" /\ f[s.obj] = w -> [f EXCEPT ![s.obj] = 0]
    [] OTHER -> f

\* what a worker reads when it runs alone from the initial state
RECURSIVE SoloRun(_, _, _, _, _, _)
SoloRun(os, w, i, v, f, acc) ==
  IF i > Len(os) THEN acc
  ELSE LET s == os[i] IN
       SoloRun(os, w, i + 1, ValAfter(s, w, v, f), FillerAfter(s, w, v, f),
               IF s.op = "r" THEN Append(acc, <<s.obj, v[s.obj]>>) ELSE acc)
SoloSeen(w) == SoloRun(X[w], w, 1, Zero, Zero, <<>>)
Init == /\ pc = [w \in Workers |-> 1]
        /\ val = Zero /\ held = Zero /\ filler = Zero
        /\ seen = [w \in Workers |-> <<>>]
        /\ ops = X
        /\ solo = [w \in Workers |-> SoloSeen(w)]

Done(w) == pc[w] > Len(ops[w])
NextOp(w) == ops[w][pc[w]]

Step(w) ==
  /\ ~Done(w)
  /\ LET s == NextOp(w) IN
     /\ (s.op = "lock" => held[s.obj] = 0)
     /\ pc' = [pc EXCEPT ![w] = @ + 1]
     /\ val' = ValAfter(s, w, val, filler)
     /\ filler' = FillerAfter(s, w, val, filler)
     /\ seen' = IF s.op = "r" THEN [seen EXCEPT ![w] = Append(@, <<s.obj, val[s.obj]>>)] ELSE seen
     /\ held' = IF s.op = "lock" THEN [held EXCEPT ![s.obj] = w]
                ELSE IF s.op = "unlock" THEN [held EXCEPT ![s.obj] = 0] ELSE held
Next == (\E w \in DOMAIN pc : Step(w)) /\ UNCHANGED <<ops, solo>>
Spec == Init /\ [][Next]_vars

\* ---------------------------------------------------------------- properties
\* a data race: two workers are both about to access the same shared object with plain memory operations, at
\* least one of them writes, and nothing orders them (both are enabled)
IsWrite(s, w) == s.op = "w" \/ (s.op = "fill" /\ filler[s.obj] = w)
IsPlain(s, w) == s.op = "r" \/ IsWrite(s, w)
Conflict(a, b) == LET sa == NextOp(a)  sb == NextOp(b)
                  IN /\ sa.obj = sb.obj /\ IsShared(sa.obj)
                     /\ IsPlain(sa, a) /\ IsPlain(sb, b) /\ (IsWrite(sa, a) \/ IsWrite(sb, b))
NoRace == \A a, b \in DOMAIN pc : (a # b /\ ~Done(a) /\ ~Done(b)) => ~Conflict(a, b)

SoloEqual == \A w \in DOMAIN pc : Done(w) => seen[w] = solo[w]

\* the design invariant that implies both: shared objects never change after publication
Immutable == [][\A o \in DOMAIN val : IsShared(o) => val'[o] = val[o]]_vars
=============================================================================
