------------------------------- MODULE SymCtx -------------------------------
(***************************************************************************)
(* The symbol context along a stream (C10), as a state machine.            *)
(*                                                                         *)
(*   ctx   the ID space in force (SymTab slots), starts as the system table*)
(*   seen  what a Reader has shown so far: one token per user symbol       *)
(*   err   the stream was found malformed (absorbing)                      *)
(*                                                                         *)
(* Items of a stream:                                                      *)
(*   [k |-> "bvm"]                      version marker: reset              *)
(*   [k |-> "replace", imps, syms]      local symbol table: replace        *)
(*   [k |-> "append", syms]             table with imports:$ion_symbol_table*)
(*   [k |-> "val", sid]                 a user value using symbol ID sid   *)
(* Import declaration [name, version, max] (max = -1: not declared).       *)
(* Resolution against the catalog: exact (name, version) adjusted to max   *)
(* (its own size when max is not declared); else the latest version        *)
(* adjusted to max; else max slots without text; without a declared max    *)
(* and without an exact match the stream is in error.                      *)
(***************************************************************************)
EXTENDS SymTab, SequencesExt

\* a catalogue is Seq([name, version, syms |-> Seq(text)]); it is a parameter of every operator
CatVersions(cat, name) == {cat[i].version : i \in {j \in 1..Len(cat) : cat[j].name = name}}
CatGet(cat, name, ver) == cat[CHOOSE i \in 1..Len(cat) : cat[i].name = name /\ cat[i].version = ver]
MaxIn(S) == CHOOSE x \in S : \A y \in S : y <= x
TextSlots(ts) == [i \in 1..Len(ts) |-> Slot(ts[i])]
\* An element of a symbols list that is not a string (null.string, an int, ...) still takes an ID, without text.
\* In item descriptions such elements are written as these sentinels (not valid UTF-8 text of any catalogue).
GapNull == <<0, 1>>
GapInt == <<0, 2>>
SymSlots(ts) == [i \in 1..Len(ts) |-> IF ts[i] \in {GapNull, GapInt} THEN Undef ELSE Slot(ts[i])]

\* [ok, slots]
ResolveDecl(d, cat) ==
  IF d.version \in CatVersions(cat, d.name)
  THEN LET t == CatGet(cat, d.name, d.version)
       IN [ok |-> TRUE, slots |-> PadTrunc(TextSlots(t.syms), IF d.max = -1 THEN Len(t.syms) ELSE d.max)]
  ELSE IF d.max = -1 THEN [ok |-> FALSE, slots |-> <<>>]
  ELSE IF CatVersions(cat, d.name) # {}
       THEN [ok |-> TRUE, slots |-> PadTrunc(TextSlots(CatGet(cat, d.name, MaxIn(CatVersions(cat, d.name))).syms), d.max)]
  ELSE [ok |-> TRUE, slots |-> PadTrunc(<<>>, d.max)]

ResolveDecls(ds, cat) == LET rs == [i \in 1..Len(ds) |-> ResolveDecl(ds[i], cat)]
                    IN [ok |-> \A i \in 1..Len(ds) : rs[i].ok,
                        slots |-> FlattenSeq([i \in 1..Len(ds) |-> rs[i].slots])]

InitC == [ctx |-> SystemSlots, seen |-> <<>>, err |-> FALSE]

StepCat(s, it, cat) ==
  IF s.err THEN s
  ELSE CASE it.k = "bvm" -> [s EXCEPT !.ctx = SystemSlots]
         [] it.k = "replace" -> LET r == ResolveDecls(it.imps, cat)
                                IN IF ~r.ok THEN [s EXCEPT !.err = TRUE]
                                   ELSE [s EXCEPT !.ctx = SystemSlots \o r.slots \o SymSlots(it.syms)]
         [] it.k = "append" -> [s EXCEPT !.ctx = s.ctx \o SymSlots(it.syms)]
         [] it.k = "val" -> IF ~ValidSid(s.ctx, it.sid) THEN [s EXCEPT !.err = TRUE]
                            ELSE [s EXCEPT !.seen = Append(@, Resolve(s.ctx, it.sid))]

RunCat(items, cat) == FoldLeft(LAMBDA acc, it : StepCat(acc, it, cat), InitC, items)

(* ---- properties of the context machine (checked by MC_SymCtx) ---- *)
SystemPrefix(s) == Len(s.ctx) >= 9 /\ SubSeq(s.ctx, 1, 9) = SystemSlots
\* appending never renumbers: the old context is a prefix of the new one
AppendKeeps(s, it, s2) == (it.k = "append" /\ ~s.err) => IsPrefix(s.ctx, s2.ctx)
\* a version marker forgets everything but the system symbols
ResetForgets(s, it, s2) == (it.k = "bvm" /\ ~s.err) => s2.ctx = SystemSlots
\* what was shown is never revised
SeenGrows(s, s2) == IsPrefix(s.seen, s2.seen)
ErrAbsorbing(s, s2) == s.err => s2 = s
=============================================================================
