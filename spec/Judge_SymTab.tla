---------------------------- MODULE Judge_SymTab ----------------------------
(***************************************************************************)
(* JUDGE for C09: every observation of the real symbol-table API against   *)
(* the ID space of spec/SymTab.tla.                                        *)
(*   ID space = system symbols 1..9, then every import padded or truncated *)
(*   to exactly its (adjusted) max_id, then the local symbols.             *)
(* An empty text stands for "slot without text" (the Go API's []string     *)
(* cannot say it otherwise) and is never found by name.                    *)
(***************************************************************************)
EXTENDS SymTab, SequencesExt, Json, TLC
CONSTANTS ObsFile, CaseFile, VerdictFile
Obs   == ndJsonDeserialize(ObsFile)
Cases == ndJsonDeserialize(CaseFile)

SlotOf(t) == IF t = <<>> THEN Undef ELSE Slot(t)
SlotsOf(ts) == [i \in 1..Len(ts) |-> SlotOf(ts[i])]
ImpOf(s) == [syms |-> SlotsOf(s.syms), max |-> IF s.adj = -1 THEN Len(s.syms) ELSE s.adj]
CtxOf(c, locals) == Slots([i \in 1..Len(c.imports) |-> ImpOf(c.imports[i])], SlotsOf(locals))

\* the same configuration when no import is found in the catalog: each import is max_id slots without text
CtxMissing(c) == Slots([i \in 1..Len(c.imports) |-> [syms |-> <<>>, max |-> ImpOf(c.imports[i]).max]], SlotsOf(c.locals))

QueryTexts == << <<97>>, <<98>>, T_name, <<99>>, T_ion, <<122>> >>

\* expectations for a table whose ID space is ctx
ByID(ctx, o) ==       \* o.byid[k] answers FindByID(k - 1), k = 1..MaxID+2
  /\ Len(o.byid) = Len(ctx) + 2
  /\ \A k \in 1..Len(o.byid) :
        LET id == k - 1
        IN IF HasText(ctx, id) THEN o.byid[k].found /\ o.byid[k].text = ctx[id].text
           ELSE ~o.byid[k].found
ByName(ctx, o) ==     \* o.byname[k] answers FindByName(QueryTexts[k]) and Find / NewSymbolToken
  \A k \in 1..Len(QueryTexts) :
     LET t == QueryTexts[k]   e == FindByName(ctx, t)
     IN /\ o.byname[k].found = (e # 0)
        /\ (e # 0 => o.byname[k].id = e)
        /\ o.byname[k].find = (e # 0)
        /\ o.byname[k].tok = (IF e # 0 THEN e ELSE -1)
TokBySid(ctx, o) ==   \* o.bysid[k] answers NewSymbolTokenBySID(k - 1), k = 1..MaxID+2
  \A k \in 1..Len(o.bysid) :
     LET id == k - 1
     IN IF id > Len(ctx) THEN o.bysid[k].err
        ELSE /\ ~o.bysid[k].err
             /\ (IF HasText(ctx, id) THEN o.bysid[k].hastext /\ o.bysid[k].text = ctx[id].text
                 ELSE ~o.bysid[k].hastext)

TableOK(ctx, o) == o.maxid = Len(ctx) /\ ByID(ctx, o) /\ ByName(ctx, o) /\ TokBySid(ctx, o)

\* the builder: Add returns the existing (least) ID for known text, else appends; earlier IDs never change
RECURSIVE BuilderOK(_, _, _, _)
BuilderOK(ctx, adds, obs, k) ==
  IF k > Len(adds) THEN TRUE
  ELSE LET r == BuilderAdd(ctx, adds[k])
       IN /\ obs[k].id = r.id /\ obs[k].added = r.added /\ obs[k].maxid = Len(r.ctx)
          /\ BuilderOK(r.ctx, adds, obs, k + 1)
RECURSIVE AfterAdds(_, _, _)
AfterAdds(ctx, adds, k) == IF k > Len(adds) THEN ctx ELSE AfterAdds(BuilderAdd(ctx, adds[k]).ctx, adds, k + 1)

ImportsOK(c, o) ==      \* Imports(): the system table first, then the declared imports with their max_id
  /\ Len(o.imports) = Len(c.imports) + 1
  /\ o.imports[1].maxid = 9
  /\ \A i \in 1..Len(c.imports) : /\ o.imports[i + 1].name = c.imports[i].name
                                  /\ o.imports[i + 1].version = c.imports[i].version
                                  /\ o.imports[i + 1].maxid = ImpOf(c.imports[i]).max

Verdict(o) ==
  LET c == Cases[o.idx]
      ctx == CtxOf(c, c.locals)
      bctx0 == CtxOf(c, <<>>)
      bctx == AfterAdds(bctx0, c.adds, 1)
  IN [idx |-> o.idx,
      why |-> IF o.panic # "" THEN "panic"
              ELSE IF ~TableOK(ctx, o.local) THEN "local symbol table disagrees with the ID space"
              ELSE IF o.local.symbols # c.locals THEN "Symbols() differs from the local symbols"
              ELSE IF ~ImportsOK(c, o.local) THEN "Imports() differs from the declared imports"
              ELSE IF ~BuilderOK(bctx0, c.adds, o.adds, 1) THEN "builder Add disagrees"
              ELSE IF ~TableOK(bctx, o.built) THEN "built table disagrees with the ID space"
              ELSE IF ~TableOK(bctx, o.builder) THEN "builder queried as a table disagrees with the ID space"
              \* a table built after k Adds still denotes the ID space after k Adds when later Adds have happened
              ELSE IF Len(o.snaps) # Len(c.adds) + 1 THEN "harness: snapshots"
              ELSE IF \E k \in 0..Len(c.adds) : ~TableOK(AfterAdds(bctx0, SubSeq(c.adds, 1, k), 1), o.snaps[k + 1])
                   THEN "a table built earlier changed when the builder was used again"
              \* the table written out and read back (catalog holding the imports) denotes the same ID space
              ELSE IF o.rt = "skip" THEN "ok"
              ELSE IF o.rt # "" THEN "the written table cannot be read back: " \o o.rt
              ELSE IF ~TableOK(ctx, o.viastring) THEN "String() read back denotes another ID space"
              ELSE IF ~TableOK(ctx, o.viawriteto) THEN "WriteTo(text) read back denotes another ID space"
              ELSE IF ~TableOK(ctx, o.viabinary) THEN "the table emitted by a binary writer denotes another ID space"
              \* held by a Reader whose catalog lacks the imports, written out and read back: placeholders keep their slots
              ELSE IF ~TableOK(CtxMissing(c), o.viabogus) THEN "a table with missing imports, written and read back, denotes another ID space"
              ELSE IF ~TableOK(CtxMissing(c), o.viabogusbin) THEN "a table with missing imports, emitted by a binary writer, denotes another ID space"
              ELSE "ok"]
ASSUME ndJsonSerialize(VerdictFile, [i \in 1..Len(Obs) |-> Verdict(Obs[i])])
=============================================================================
