------------------------------- MODULE MC_Conc -------------------------------
(* Exhaustive interleavings of programs: either the abstract alphabet below (every instrumented site, two      *)
(* shared tables, a catalog, the system table, two struct types) or programs recorded from ion-go (ProgFile).   *)
EXTENDS Json, TLC, Naturals, Sequences
CONSTANTS ProgFile, Dev
S(site, obj) == [site |-> site, obj |-> obj]
Abstract == <<
  \* a reader resolving an import: catalog lookup, Adjust, lookups by ID
  << S("start", "-"), S("sst.FindByName", "sys"), S("catalog.FindExact", "cat"), S("sst.Adjust", "T1"), S("sst.MaxID", "private"), S("sst.FindByID", "private"), S("sst.FindByID", "sys") >>,
  \* a writer importing T1 and T2, marshalling a struct
  << S("start", "-"), S("sst.MaxID", "sys"), S("sst.MaxID", "T1"), S("fieldsFor", "type:A"), S("sst.FindByName", "T1"), S("sst.FindByName", "T2"), S("sst.WriteTo", "T1") >>,
  \* a decoder into the same struct type with a fallback import
  << S("start", "-"), S("catalog.FindExact", "cat"), S("catalog.FindLatest", "cat"), S("sst.Adjust", "T1"), S("fieldsFor", "type:A"), S("fieldsFor", "type:B"), S("sst.Symbols", "T1") >> >>
FromFile == LET rows == ndJsonDeserialize(ProgFile) IN [w \in 1..Len(rows) |-> [i \in 1..Len(rows[w].prog) |-> S(rows[w].prog[i].site, rows[w].prog[i].obj)]]
P == IF ProgFile = "" THEN Abstract ELSE FromFile
Devs == IF Dev = "" THEN {} ELSE {Dev}
VARIABLES pc, val, seen, held, filler, ops, solo
INSTANCE Conc WITH Progs <- P, Deviations <- Devs
=============================================================================
