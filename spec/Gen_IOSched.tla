----------------------------- MODULE Gen_IOSched -----------------------------
(***************************************************************************)
(* GEN for C19 (reader half): delivery schedules of the IOEnv environment  *)
(* for each document: every single split point, byte at a time, seeded     *)
(* chunkings with occasional zero-length reads, EOF handed over with the   *)
(* last bytes or on its own, and a source failure at every byte offset.    *)
(*   schedule = [chunks |-> Seq(Nat), eofWithLast |-> BOOLEAN, failAt]     *)
(*   (bytes beyond the listed chunks arrive in one piece; failAt = -1:     *)
(*   no failure)                                                           *)
(***************************************************************************)
EXTENDS Integers, Sequences, SequencesExt, Json, TLC
CONSTANTS DocFile, StreamFile, OutFile, MaxSplits, MaxFaults, RandomPerDoc
Docs    == ndJsonDeserialize(DocFile)        \* [len]
Streams == ndJsonDeserialize(StreamFile)
R(st, i) == st[((i - 1) % Len(st)) + 1]

Sched(chunks, e, f) == [chunks |-> chunks, eofWithLast |-> e, failAt |-> f]
Points(n, max, st, off) == IF n <= max THEN [k \in 1..n |-> k] ELSE [k \in 1..max |-> (R(st, off + k) % n) + 1]
RandChunks(st, off, n) == [k \in 1..(2 * n) |-> LET r == R(st, off + k) % 10 IN IF r = 9 THEN 0 ELSE IF r >= 6 THEN 1 ELSE r + 1]

SchedsFor(n, st) ==
  LET sp == IF n >= 2 THEN Points(n - 1, MaxSplits, st, 0) ELSE <<>>
      fp == IF n >= 1 THEN Points(n, MaxFaults, st, 100) ELSE <<>>
  IN [k \in 1..Len(sp) |-> Sched(<<sp[k]>>, k % 2 = 0, -1)]
     \o << Sched([k \in 1..n |-> 1], FALSE, -1), Sched([k \in 1..n |-> 1], TRUE, -1), Sched(<<>>, TRUE, -1) >>
     \o [k \in 1..RandomPerDoc |-> Sched(RandChunks(st, 200 + 40 * k, n), R(st, 199 + k) % 2 = 0, -1)]
     \o [k \in 1..Len(fp) |-> Sched(IF k % 3 = 0 THEN RandChunks(st, 600 + k, n) ELSE <<>>, FALSE, fp[k] - 1)]

ASSUME ndJsonSerialize(OutFile, [d \in 1..Len(Docs) |-> [doc |-> d, scheds |-> SchedsFor(Docs[d].len, Streams[((d - 1) % Len(Streams)) + 1].s)]])
=============================================================================
