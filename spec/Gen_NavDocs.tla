----------------------------- MODULE Gen_NavDocs -----------------------------
(* renderings of the navigation documents: the forest of each document, binary encodings under     *)
(* several choice streams, and the literal text of the text documents                              *)
EXTENDS NavDocs, IonBinaryEnc, Json, TLC
CONSTANTS StreamFile, OutFile
Streams == ndJsonDeserialize(StreamFile)
AllDocs == ForestDocs \o [i \in 1..Len(TextDocs) |-> TextDocForest(i)]
Out == [d \in 1..Len(AllDocs) |->
          [doc |-> d, forest |-> AllDocs[d],
           bins |-> [k \in 1..Len(Streams) |-> EncodeStream(AllDocs[d], Streams[k].s)],
           text |-> IF d > Len(ForestDocs) THEN TextDocs[d - Len(ForestDocs)] ELSE <<>>]]
ASSUME ndJsonSerialize(OutFile, Out)
=============================================================================
