---------------------------- MODULE Judge_Marshal ----------------------------
(* JUDGE for C16: MarshalText / MarshalBinary output decoded by the specification's decoders must be the   *)
(* Ion value spec/Marshal.tla assigns to the Go value; MarshalText is deterministic; Unmarshal of either    *)
(* output into a fresh value of the same Go type gives a value that denotes the same Ion value.             *)
EXTENDS Marshal, IonText, Json
CONSTANTS ObsFile, VerdictFile
Obs == ndJsonDeserialize(ObsFile)

One(d) == d.ok /\ Len(d.forest) = 1
Why(o) ==
  LET e == ToIon(o.gv, "")
  IN IF o.panic # "" THEN "panic"
     ELSE IF o.stale # "" THEN o.stale
     ELSE IF o.texterr # "" THEN "MarshalText refused a supported value"
     ELSE IF o.binerr # "" THEN "MarshalBinary refused a supported value"
     ELSE LET dt == TextDecode(o.text)
              db == BinDecode(o.bin, <<>>)
          IN IF ~One(dt) THEN "MarshalText output is not one valid Ion value"
             ELSE IF ~Equiv(dt.forest[1], e) THEN "MarshalText output denotes another value"
             ELSE IF ~o.same THEN "MarshalText is not deterministic"
             ELSE IF ~One(db) THEN "MarshalBinary output is not one valid Ion value"
             ELSE IF ~EquivUnordered(db.forest[1], e) THEN "MarshalBinary output denotes another value"
             ELSE IF o.backtexterr # "" THEN "Unmarshal rejects MarshalText output"
             ELSE IF ~EquivUnordered(ToIon(NormG(o.backtext), ""), ToIon(NormG(o.gv), "")) THEN "Unmarshal(MarshalText(v)) differs from v"
             ELSE IF o.backbinerr # "" THEN "Unmarshal rejects MarshalBinary output"
             ELSE IF ~EquivUnordered(ToIon(NormG(o.backbin), ""), ToIon(NormG(o.gv), "")) THEN "Unmarshal(MarshalBinary(v)) differs from v"
             ELSE "ok"
ASSUME ndJsonSerialize(VerdictFile, [i \in 1..Len(Obs) |-> [idx |-> Obs[i].idx, why |-> Why(Obs[i])]])
=============================================================================
