----------------------------- MODULE IonBinary -----------------------------
(***************************************************************************)
(* Ion 1.0 binary: a total decoder written from the Ion specification.     *)
(* It shares nothing with ion-go and is the judge for every byte stream    *)
(* the binary writers emit and the reference for every encoding handed to  *)
(* the binary reader.                                                      *)
(*                                                                         *)
(*   BinDecode(bs, catalog) =                                              *)
(*      [ok |-> TRUE,  forest |-> Seq(value), ctx |-> final symbol context,*)
(*       tables |-> number of local symbol tables seen, bvms |-> ...]      *)
(*    | [ok |-> FALSE, why |-> reason, at |-> byte index (1-based)]        *)
(*                                                                         *)
(* Reasons starting with "limit:" or "open:" are points where Ion leaves   *)
(* the outcome open or an implementation limit is legitimate; callers must *)
(* not use such inputs as must-accept or must-reject cases.                *)
(*                                                                         *)
(* catalog: Seq([name |-> bytes, version |-> Nat, syms |-> Seq(Slot)])     *)
(***************************************************************************)
EXTENDS IonData, SymTab, BigNat, Utf8, Calendar

Rej(why, at) == [ok |-> FALSE, why |-> why, at |-> at]

(***************************************************************************)
(* Field codecs                                                            *)
(***************************************************************************)
\* VarUInt starting at index p, never reading beyond index lim.
\* val saturates at Huge (2^30); n = number of bytes.
RECURSIVE VarUIntFrom(_, _, _, _)
VarUIntFrom(bs, p, lim, acc) ==
  IF p > lim THEN Rej("varuint overruns its container or the input", p)
  ELSE LET b  == bs[p]
           a2 == IF acc >= 8388608 THEN Huge ELSE acc * 128 + (b % 128)
       IN IF b >= 128 THEN [ok |-> TRUE, val |-> a2, next |-> p + 1]
          ELSE VarUIntFrom(bs, p + 1, lim, a2)
VarUInt(bs, p, lim) == VarUIntFrom(bs, p, lim, 0)

\* VarInt: sign in bit 6 of the first byte; -0 is representable.
VarInt(bs, p, lim) ==
  IF p > lim THEN Rej("varint overruns its container or the input", p)
  ELSE LET b == bs[p]
           neg == (b \div 64) % 2 = 1
           v0  == b % 64
       IN IF b >= 128 THEN [ok |-> TRUE, neg |-> neg, val |-> v0, next |-> p + 1]
          ELSE LET r == VarUIntFrom(bs, p + 1, lim, v0)
               IN IF ~r.ok THEN r ELSE [ok |-> TRUE, neg |-> neg, val |-> r.val, next |-> r.next]

\* Int field (sign-magnitude, sign in the top bit of the first byte) from a byte sequence
IntField(b) ==
  IF b = <<>> THEN [neg |-> FALSE, mag |-> <<>>]
  ELSE [neg |-> b[1] >= 128, mag |-> Strip(<<b[1] % 128>> \o Tail(b))]

(***************************************************************************)
(* float32 bits (4 bytes) -> float64 bits (8 bytes), exactly               *)
(***************************************************************************)
Bits(n, w) == [i \in 1..w |-> (n \div (2^(w - i))) % 2]       \* big-endian bit list
PackBytes(bits) == [k \in 1..(Len(bits) \div 8) |->
                      LET o == 8 * (k - 1)
                      IN 128*bits[o+1] + 64*bits[o+2] + 32*bits[o+3] + 16*bits[o+4]
                         + 8*bits[o+5] + 4*bits[o+6] + 2*bits[o+7] + bits[o+8]]
Zeros(n) == [i \in 1..n |-> 0]

F32To64(b) ==
  LET sign == b[1] \div 128
      e8   == (b[1] % 128) * 2 + b[2] \div 128
      m23  == (b[2] % 128) * 65536 + b[3] * 256 + b[4]
      mb   == Bits(m23, 23)
  IN IF e8 = 255 THEN PackBytes(<<sign>> \o Bits(2047, 11) \o mb \o Zeros(29))
     ELSE IF e8 = 0 THEN
        IF m23 = 0 THEN PackBytes(<<sign>> \o Zeros(63))
        ELSE \* subnormal float32 = m23 * 2^-149: normal in float64
             LET p == CHOOSE k \in 0..22 : m23 >= 2^k /\ m23 < 2^(k+1)
                 frac == Bits(m23 - 2^p, p)            \* p bits below the leading one
             IN PackBytes(<<sign>> \o Bits(p + 874, 11) \o frac \o Zeros(52 - p))
     ELSE PackBytes(<<sign>> \o Bits(e8 + 896, 11) \o mb \o Zeros(29))

(***************************************************************************)
(* Timestamps                                                              *)
(***************************************************************************)
PadLeftZeros(digits, n) == IF Len(digits) >= n THEN digits ELSE Zeros(n - Len(digits)) \o digits

\* The stored fields are UTC; the year range 0001..9999 applies to the local time they denote.
LocalYearOf(ts) == IF ts.prec <= 3 THEN ts.y
                   ELSE AddMinutes([y |-> ts.y, mo |-> ts.mo, d |-> ts.d, h |-> ts.h, mi |-> ts.mi],
                                   IF ts.known THEN ts.off ELSE 0).y

\* payload = bs[p..e]
DecodeTimestampFields(bs, p, e) ==
  LET o == VarInt(bs, p, e)
  IN IF ~o.ok THEN Rej("timestamp: bad offset", p)
     ELSE IF o.val >= 1440 THEN Rej("timestamp: offset of a day or more", p)
     ELSE
     LET known == ~(o.neg /\ o.val = 0)
         off   == IF o.neg THEN 0 - o.val ELSE o.val
         yr    == VarUInt(bs, o.next, e)
     IN IF ~yr.ok THEN Rej("timestamp: missing year", o.next)
        ELSE IF yr.val > 10000 THEN Rej("timestamp: year out of range", o.next)     \* UTC year; local year checked below
        ELSE IF yr.next > e THEN
             [ok |-> TRUE, ts |-> [y |-> yr.val, mo |-> 1, d |-> 1, h |-> 0, mi |-> 0, s |-> 0,
                                   frac |-> <<>>, off |-> off, known |-> known, prec |-> 1]]
        ELSE
        LET mo == VarUInt(bs, yr.next, e)
        IN IF ~mo.ok \/ mo.val < 1 \/ mo.val > 12 THEN Rej("timestamp: bad month", yr.next)
           ELSE IF mo.next > e THEN
             [ok |-> TRUE, ts |-> [y |-> yr.val, mo |-> mo.val, d |-> 1, h |-> 0, mi |-> 0, s |-> 0,
                                   frac |-> <<>>, off |-> off, known |-> known, prec |-> 2]]
           ELSE
           LET dd == VarUInt(bs, mo.next, e)
           IN IF ~dd.ok \/ dd.val < 1 \/ dd.val > DaysIn(yr.val, mo.val)
              THEN Rej("timestamp: bad day", mo.next)
              ELSE IF dd.next > e THEN
                [ok |-> TRUE, ts |-> [y |-> yr.val, mo |-> mo.val, d |-> dd.val, h |-> 0, mi |-> 0,
                                      s |-> 0, frac |-> <<>>, off |-> off, known |-> known, prec |-> 3]]
              ELSE
              LET hh == VarUInt(bs, dd.next, e)
              IN IF ~hh.ok \/ hh.val > 23 THEN Rej("timestamp: bad hour", dd.next)
                 ELSE IF hh.next > e THEN Rej("timestamp: hour without minute", dd.next)
                 ELSE
                 LET mi == VarUInt(bs, hh.next, e)
                 IN IF ~mi.ok \/ mi.val > 59 THEN Rej("timestamp: bad minute", hh.next)
                    ELSE IF mi.next > e THEN
                      [ok |-> TRUE, ts |-> [y |-> yr.val, mo |-> mo.val, d |-> dd.val, h |-> hh.val,
                                            mi |-> mi.val, s |-> 0, frac |-> <<>>, off |-> off,
                                            known |-> known, prec |-> 4]]
                    ELSE
                    LET ss == VarUInt(bs, mi.next, e)
                    IN IF ~ss.ok \/ ss.val > 59 THEN Rej("timestamp: bad second", mi.next)
                       ELSE IF ss.next > e THEN
                         [ok |-> TRUE, ts |-> [y |-> yr.val, mo |-> mo.val, d |-> dd.val, h |-> hh.val,
                                               mi |-> mi.val, s |-> ss.val, frac |-> <<>>, off |-> off,
                                               known |-> known, prec |-> 5]]
                       ELSE
                       LET fe == VarInt(bs, ss.next, e)
                       IN IF ~fe.ok THEN Rej("timestamp: bad fraction exponent", ss.next)
                          ELSE
                          LET cf == IntField(Slice(bs, fe.next, e))
                              digits == ToDec(cf.mag)
                              nd == fe.val        \* number of fraction digits when exponent negative
                          IN IF cf.mag = <<>> /\ (~fe.neg \/ fe.val = 0)
                             THEN \* coefficient zero, exponent >= 0: no fractional digits
                               [ok |-> TRUE, ts |-> [y |-> yr.val, mo |-> mo.val, d |-> dd.val,
                                   h |-> hh.val, mi |-> mi.val, s |-> ss.val, frac |-> <<>>,
                                   off |-> off, known |-> known, prec |-> 5]]
                             ELSE IF cf.neg /\ cf.mag # <<>> THEN Rej("timestamp: negative fraction", fe.next)
                             ELSE IF ~fe.neg \/ nd = 0 THEN Rej("timestamp: fraction not below one", ss.next)
                             ELSE IF nd >= 100 THEN Rej("limit: fraction with 100 or more digits", ss.next)
                             ELSE IF Len(digits) > nd THEN Rej("timestamp: fraction not below one", ss.next)
                             ELSE
                               [ok |-> TRUE, ts |-> [y |-> yr.val, mo |-> mo.val, d |-> dd.val,
                                   h |-> hh.val, mi |-> mi.val, s |-> ss.val,
                                   frac |-> PadLeftZeros(digits, nd),
                                   off |-> off, known |-> known, prec |-> 6]]

DecodeTimestamp(bs, p, e) ==
  LET r == DecodeTimestampFields(bs, p, e)
  IN IF ~r.ok THEN r
     ELSE IF r.ts.y < 1 /\ r.ts.prec <= 3 THEN Rej("timestamp: year out of range", p)
     ELSE IF LocalYearOf(r.ts) < 1 \/ LocalYearOf(r.ts) > 9999 THEN Rej("timestamp: year out of range", p)
     ELSE r

(***************************************************************************)
(* Decimals: payload = bs[p..e] (p > e means empty = 0d0)                  *)
(***************************************************************************)
DecodeDecimal(bs, p, e) ==
  IF p > e THEN [ok |-> TRUE, d |-> [neg |-> FALSE, coef |-> <<>>, exp |-> 0]]
  ELSE LET x == VarInt(bs, p, e)
       IN IF ~x.ok THEN Rej("decimal: bad exponent", p)
          ELSE IF x.val >= Huge THEN Rej("limit: decimal exponent beyond 2^30", p)
          ELSE LET cf == IntField(Slice(bs, x.next, e))
               IN [ok |-> TRUE, d |-> [neg |-> cf.neg, coef |-> cf.mag,
                                       exp |-> IF x.neg THEN 0 - x.val ELSE x.val]]

(***************************************************************************)
(* Values                                                                  *)
(*                                                                         *)
(* DecodeAt(bs, p, lim, ctx) decodes what starts at index p, where lim is  *)
(* the last index of the enclosing container (or of the input).            *)
(*  [ok, kind |-> "value", v, next] | [ok, kind |-> "nop", next]           *)
(*  | [ok, kind |-> "bvm", next] | Rej                                     *)
(***************************************************************************)
TypeOfNibble == <<"null", "bool", "int", "int", "float", "decimal", "timestamp", "symbol",
                  "string", "clob", "blob", "list", "sexp", "struct">>   \* index T+1, T in 0..13

RECURSIVE DecodeAt(_, _, _, _), DecodeSeq(_, _, _, _, _, _), DecodeAnnots(_, _, _, _, _)

\* annotation SIDs occupying exactly bs[p..e]
DecodeAnnots(bs, p, e, ctx, acc) ==
  IF p > e THEN [ok |-> TRUE, anns |-> acc]
  ELSE LET r == VarUInt(bs, p, e)
       IN IF ~r.ok THEN Rej("annotation id overruns annot_length", p)
          ELSE IF ~ValidSid(ctx, r.val) THEN Rej("annotation symbol id beyond max_id", p)
          ELSE DecodeAnnots(bs, r.next, e, ctx, Append(acc, Resolve(ctx, r.val)))

\* members of a container occupying exactly bs[p..e]; struct = TRUE reads field ids
DecodeSeq(bs, p, e, ctx, struct, acc) ==
  IF p > e THEN [ok |-> TRUE, items |-> acc]
  ELSE
  LET f == IF struct THEN VarUInt(bs, p, e) ELSE [ok |-> TRUE, val |-> 0, next |-> p]
  IN IF ~f.ok THEN Rej("field id overruns struct", p)
     ELSE IF struct /\ ~ValidSid(ctx, f.val) THEN Rej("field symbol id beyond max_id", p)
     ELSE IF f.next > e THEN Rej("field id without value", p)
     ELSE
     LET r == DecodeAt(bs, f.next, e, ctx)
     IN IF ~r.ok THEN r
        ELSE IF r.kind = "bvm" THEN Rej("version marker inside a container", f.next)
        ELSE IF r.kind = "nop" THEN DecodeSeq(bs, r.next, e, ctx, struct, acc)
        ELSE DecodeSeq(bs, r.next, e, ctx, struct,
                       Append(acc, IF struct THEN [name |-> Resolve(ctx, f.val), val |-> r.v] ELSE r.v))

DecodeAt(bs, p, lim, ctx) ==
  LET td == bs[p]
      T  == td \div 16
      L  == td % 16
  IN
  IF T = 15 THEN Rej("reserved type code 15", p)
  ELSE IF T = 14 /\ L = 0 THEN
       IF p + 3 > lim THEN Rej("truncated version marker", p)
       ELSE IF bs[p+3] # 234 THEN Rej("malformed version marker", p)
       ELSE IF bs[p+1] # 1 \/ bs[p+2] # 0 THEN Rej("unsupported Ion version", p)
       ELSE [ok |-> TRUE, kind |-> "bvm", next |-> p + 4]
  ELSE IF T = 14 /\ L = 15 THEN Rej("null annotation wrapper", p)
  ELSE IF T = 1 /\ L \notin {0, 1, 15} THEN Rej("bool with length", p)
  ELSE IF L = 15 THEN
       \* typed null (3F is an open point: accepted here as null.int, never generated)
       [ok |-> TRUE, kind |-> "value", v |-> NullVal(TypeOfNibble[T + 1], <<>>), next |-> p + 1]
  ELSE
  LET varlen == L = 14 \/ (T = 13 /\ L = 1)
      lr == IF varlen THEN VarUInt(bs, p + 1, lim) ELSE [ok |-> TRUE, val |-> L, next |-> p + 1]
  IN
  IF ~lr.ok THEN Rej("length overruns its container or the input", p)
  ELSE
  LET len   == IF T = 1 THEN 0 ELSE lr.val
      start == lr.next
      e     == start + len - 1            \* last payload index
  IN
  IF len >= Huge \/ e > lim THEN Rej("value overruns its container or the input", p)
  ELSE IF T = 13 /\ L = 1 /\ len = 0 THEN Rej("sorted struct must not be empty", p)
  ELSE
  CASE T = 0 -> [ok |-> TRUE, kind |-> "nop", next |-> e + 1]
    [] T = 1 -> [ok |-> TRUE, kind |-> "value", v |-> Val("bool", <<>>, L = 1), next |-> p + 1]
    [] T = 2 -> [ok |-> TRUE, kind |-> "value", next |-> e + 1,
                 v |-> Val("int", <<>>, [neg |-> FALSE, mag |-> Strip(Slice(bs, start, e))])]
    [] T = 3 -> LET mag == Strip(Slice(bs, start, e))
                IN IF mag = <<>> THEN Rej("negative zero integer", p)
                   ELSE [ok |-> TRUE, kind |-> "value", next |-> e + 1,
                         v |-> Val("int", <<>>, [neg |-> TRUE, mag |-> mag])]
    [] T = 4 -> IF len = 0 THEN [ok |-> TRUE, kind |-> "value", next |-> e + 1,
                                 v |-> Val("float", <<>>, PosZeroBits)]
                ELSE IF len = 4 THEN [ok |-> TRUE, kind |-> "value", next |-> e + 1,
                                 v |-> Val("float", <<>>, CanonFloat(F32To64(Slice(bs, start, e))))]
                ELSE IF len = 8 THEN [ok |-> TRUE, kind |-> "value", next |-> e + 1,
                                 v |-> Val("float", <<>>, CanonFloat(Slice(bs, start, e)))]
                ELSE Rej("float length not 0, 4 or 8", p)
    [] T = 5 -> LET d == DecodeDecimal(bs, start, e)
                IN IF ~d.ok THEN d
                   ELSE [ok |-> TRUE, kind |-> "value", next |-> e + 1, v |-> Val("decimal", <<>>, d.d)]
    [] T = 6 -> IF len = 0 THEN Rej("empty timestamp", p)
                ELSE LET t == DecodeTimestamp(bs, start, e)
                     IN IF ~t.ok THEN t
                        ELSE [ok |-> TRUE, kind |-> "value", next |-> e + 1,
                              v |-> Val("timestamp", <<>>, t.ts)]
    [] T = 7 -> LET sid == ToSmall(Slice(bs, start, e))
                IN IF ~ValidSid(ctx, sid) THEN Rej("symbol id beyond max_id", p)
                   ELSE [ok |-> TRUE, kind |-> "value", next |-> e + 1,
                         v |-> Val("symbol", <<>>, Resolve(ctx, sid))]
    [] T = 8 -> LET s == Slice(bs, start, e)
                IN IF ~Utf8Valid(s) THEN Rej("string is not valid UTF-8", p)
                   ELSE [ok |-> TRUE, kind |-> "value", next |-> e + 1, v |-> Val("string", <<>>, s)]
    [] T = 9  -> [ok |-> TRUE, kind |-> "value", next |-> e + 1, v |-> Val("clob", <<>>, Slice(bs, start, e))]
    [] T = 10 -> [ok |-> TRUE, kind |-> "value", next |-> e + 1, v |-> Val("blob", <<>>, Slice(bs, start, e))]
    [] T \in {11, 12} ->
                LET r == DecodeSeq(bs, start, e, ctx, FALSE, <<>>)
                IN IF ~r.ok THEN r
                   ELSE [ok |-> TRUE, kind |-> "value", next |-> e + 1,
                         v |-> Val(IF T = 11 THEN "list" ELSE "sexp", <<>>, r.items)]
    [] T = 13 -> LET r == DecodeSeq(bs, start, e, ctx, TRUE, <<>>)
                 IN IF ~r.ok THEN r
                    ELSE [ok |-> TRUE, kind |-> "value", next |-> e + 1, v |-> Val("struct", <<>>, r.items)]
    [] T = 14 ->
         \* annotation wrapper: annot_length, annotations, exactly one value filling the rest
         IF len < 3 THEN Rej("annotation wrapper shorter than 3 bytes", p)
         ELSE
         LET al == VarUInt(bs, start, e)
         IN IF ~al.ok THEN Rej("annot_length overruns wrapper", start)
            ELSE IF al.val = 0 THEN Rej("annotation wrapper without annotations", start)
            ELSE IF al.next + al.val - 1 >= e THEN Rej("annotations leave no room for a value", start)
            ELSE
            LET as == DecodeAnnots(bs, al.next, al.next + al.val - 1, ctx, <<>>)
                vp == al.next + al.val
            IN IF ~as.ok THEN as
               ELSE IF bs[vp] \div 16 = 14 THEN Rej("annotation wrapper around wrapper or version marker", vp)
               ELSE
               LET r == DecodeAt(bs, vp, e, ctx)
               IN IF ~r.ok THEN r
                  ELSE IF r.kind # "value" THEN Rej("annotation wrapper around NOP pad", vp)
                  ELSE IF r.next # e + 1 THEN Rej("annotation wrapper length differs from wrapped value", p)
                  ELSE [ok |-> TRUE, kind |-> "value", next |-> e + 1,
                        v |-> [r.v EXCEPT !.ann = as.anns]]

(***************************************************************************)
(* Local symbol tables                                                     *)
(***************************************************************************)
IsTextTok(tok, t) == tok.k = "text" /\ tok.text = t
IsLST(v) == v.t = "struct" /\ v.ann # <<>> /\ IsTextTok(v.ann[1], T_ion_symbol_table)

FieldsNamed(v, t) == SelectSeq(v.v, LAMBDA f : IsTextTok(f.name, t))

SmallInt(iv) == IF iv.neg THEN 0 - ToSmall(iv.mag) ELSE ToSmall(iv.mag)

Versions(cat, name) == {cat[i].version : i \in {j \in 1..Len(cat) : cat[j].name = name}}
CatFind(cat, name, ver) == cat[CHOOSE i \in 1..Len(cat) : cat[i].name = name /\ cat[i].version = ver]
MaxOf(S) == CHOOSE x \in S : \A y \in S : y <= x

\* one element of the imports list -> [ok, skip, slots]
ResolveImport(iv, cat) ==
  IF iv.t # "struct" \/ iv.null THEN [ok |-> TRUE, slots |-> <<>>]
  ELSE
  LET nf == FieldsNamed(iv, T_name)
      vf == FieldsNamed(iv, T_version)
      mf == FieldsNamed(iv, T_max_id)
      nameOk == nf # <<>> /\ nf[1].val.t = "string" /\ ~nf[1].val.null
                /\ nf[1].val.v # <<>> /\ nf[1].val.v # T_ion
      name == nf[1].val.v
      ver == IF vf # <<>> /\ vf[1].val.t = "int" /\ ~vf[1].val.null /\ ~vf[1].val.v.neg
                /\ vf[1].val.v.mag # <<>>
             THEN SmallInt(vf[1].val.v) ELSE 1
      hasMax == mf # <<>> /\ mf[1].val.t = "int" /\ ~mf[1].val.null /\ ~mf[1].val.v.neg
      max == IF hasMax THEN SmallInt(mf[1].val.v) ELSE 0
  IN IF ~nameOk THEN [ok |-> TRUE, slots |-> <<>>]
     ELSE IF Len(nf) > 1 \/ Len(vf) > 1 \/ Len(mf) > 1 THEN Rej("open: repeated import field", 0)
     ELSE IF max >= 65536 THEN Rej("limit: import max_id of 65536 or more", 0)
     ELSE IF ver \in Versions(cat, name)
          THEN LET t == CatFind(cat, name, ver)
               IN [ok |-> TRUE, slots |-> PadTrunc(t.syms, IF hasMax THEN max ELSE Len(t.syms))]
     ELSE IF ~hasMax THEN Rej("import without max_id and without exact catalog match", 0)
     ELSE IF Versions(cat, name) # {}
          THEN [ok |-> TRUE, slots |-> PadTrunc(CatFind(cat, name, MaxOf(Versions(cat, name))).syms, max)]
     ELSE [ok |-> TRUE, slots |-> PadTrunc(<<>>, max)]

RECURSIVE ResolveImports(_, _, _)
ResolveImports(list, cat, acc) ==
  IF list = <<>> THEN [ok |-> TRUE, slots |-> acc]
  ELSE LET r == ResolveImport(Head(list), cat)
       IN IF ~r.ok THEN r ELSE ResolveImports(Tail(list), cat, acc \o r.slots)

LocalSlots(sv) ==
  IF sv.t # "list" \/ sv.null THEN <<>>
  ELSE [i \in 1..Len(sv.v) |-> IF sv.v[i].t = "string" /\ ~sv.v[i].null
                               THEN Slot(sv.v[i].v) ELSE Undef]

\* the context installed by local symbol table struct v read under ctx
ApplyLST(v, ctx, cat) ==
  IF v.null THEN Rej("open: null.struct annotated as symbol table", 0)
  ELSE
  LET impF == FieldsNamed(v, T_imports)
      symF == FieldsNamed(v, T_symbols)
  IN IF Len(impF) > 1 \/ Len(symF) > 1 THEN Rej("open: repeated imports or symbols field", 0)
     ELSE
     LET locals == IF symF = <<>> THEN <<>> ELSE LocalSlots(symF[1].val)
         iv == impF[1].val
     IN IF impF = <<>> THEN [ok |-> TRUE, ctx |-> SystemSlots \o locals]
        ELSE IF iv.t = "symbol" /\ ~iv.null /\ IsTextTok(iv.v, T_ion_symbol_table)
             THEN [ok |-> TRUE, ctx |-> ctx \o locals]
        ELSE IF iv.t = "list" /\ ~iv.null
             THEN LET r == ResolveImports(iv.v, cat, <<>>)
                  IN IF ~r.ok THEN r ELSE [ok |-> TRUE, ctx |-> SystemSlots \o r.slots \o locals]
        ELSE [ok |-> TRUE, ctx |-> SystemSlots \o locals]

(***************************************************************************)
(* Top level                                                               *)
(***************************************************************************)
RECURSIVE DecodeTop(_, _, _, _, _, _)
DecodeTop(bs, p, ctx, cat, forest, stats) ==
  IF p > Len(bs) THEN [ok |-> TRUE, forest |-> forest, ctx |-> ctx,
                       tables |-> stats.tables, bvms |-> stats.bvms, nops |-> stats.nops, lsts |-> stats.lsts]
  ELSE
  LET r == DecodeAt(bs, p, Len(bs), ctx)
  IN IF ~r.ok THEN [ok |-> FALSE, why |-> r.why, at |-> r.at, top |-> p]     \* top: where the failing top-level value starts
     ELSE IF r.kind = "bvm" THEN DecodeTop(bs, r.next, SystemSlots, cat, forest,
                                           [stats EXCEPT !.bvms = @ + 1])
     ELSE IF r.kind = "nop" THEN DecodeTop(bs, r.next, ctx, cat, forest, [stats EXCEPT !.nops = @ + 1])
     ELSE IF IsLST(r.v)
          THEN LET a == ApplyLST(r.v, ctx, cat)
               IN IF ~a.ok THEN [ok |-> FALSE, why |-> a.why, at |-> p, top |-> p]
                  ELSE DecodeTop(bs, r.next, a.ctx, cat, forest, [stats EXCEPT !.tables = @ + 1, !.lsts = Append(@, r.v)])
     ELSE DecodeTop(bs, r.next, ctx, cat, Append(forest, r.v), stats)

BVM == <<224, 1, 0, 234>>

BinDecode(bs, cat) ==
  IF Len(bs) < 4 \/ SubSeq(bs, 1, 4) # BVM
  THEN [ok |-> FALSE, why |-> "stream does not start with the version marker E0 01 00 EA", at |-> 1, top |-> 1]
  ELSE DecodeTop(bs, 1, SystemSlots, cat, <<>>, [tables |-> 0, bvms |-> 0, nops |-> 0, lsts |-> <<>>])

\* Does the top-level value starting at p look like a local symbol table (annotation wrapper whose
\* first annotation is $ion_symbol_table = SID 3)?  Used to tell where a malformation sits.
LooksLikeLST(bs, p) ==
  /\ p <= Len(bs) /\ bs[p] \div 16 = 14 /\ bs[p] % 16 \notin {0, 15}
  /\ LET lr == IF bs[p] % 16 = 14 THEN VarUInt(bs, p + 1, Len(bs)) ELSE [ok |-> TRUE, val |-> 0, next |-> p + 1]
     IN lr.ok /\ LET al == VarUInt(bs, lr.next, Len(bs))
                 IN al.ok /\ LET a1 == VarUInt(bs, al.next, Len(bs)) IN a1.ok /\ a1.val = 3

\* Is a rejection one the Ion specification leaves open / an implementation limit?
IsOpenReason(why) == why \in {"open: repeated import field", "limit: import max_id of 65536 or more",
                              "open: null.struct annotated as symbol table",
                              "open: repeated imports or symbols field",
                              "limit: decimal exponent beyond 2^30",
                              "limit: fraction with 100 or more digits"}
=============================================================================
