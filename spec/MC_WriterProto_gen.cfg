\* GEN: all programs of length <= MaxLen over the reduced alphabet (history in state)
SPECIFICATION Spec
CONSTANTS
  Mode = "binary"
  FixedTexts <- FixedNone
  MaxLen = 4
  KeepHist = TRUE
  Use <- Reduced
  MaxDepth = 10
  MaxMembers = 10
  MaxAnn = 10
  MaxBatches = 10
INVARIANTS TypeOK NamesOnlyInStructs
PROPERTIES Sticky ErrSet FinishOk AppendOnly
CHECK_DEADLOCK FALSE
