--------------------------- MODULE Judge_DecStream ---------------------------
(* JUDGE for C17 (the Decoder as a stream automaton): over a stream of n values Decode yields them one per *)
(* call, in order, each a faithful Go value, and then reports ErrNoInput on every further call.             *)
EXTENDS Marshal, Json
CONSTANTS ObsFile, CaseFile, VerdictFile
Obs   == ndJsonDeserialize(ObsFile)
Cases == ndJsonDeserialize(CaseFile)
Why(o) ==
  LET f == Cases[o.idx].forest
  IN IF o.decpanic # "" THEN "panic"
     ELSE IF o.decerr # "" THEN "Decode failed on a valid stream"
     ELSE IF Len(o.decoded) # Len(f) THEN "Decode yielded another number of values than the stream holds"
     ELSE IF \E i \in 1..Len(f) : ~Faithful(o.decoded[i], f[i]) THEN "Decode yielded a value that does not represent the stream's value, or out of order"
     ELSE IF o.noinput # 3 THEN "after the last value Decode did not keep reporting ErrNoInput"
     ELSE "ok"
ASSUME ndJsonSerialize(VerdictFile, [i \in 1..Len(Obs) |-> [idx |-> Obs[i].idx, why |-> Why(Obs[i])]])
=============================================================================
