-------------------------- MODULE Trace_WriterProto --------------------------
(***************************************************************************)
(* Trace validation of real ion.Writer executions against WriterProto.     *)
(*                                                                         *)
(* The trace file holds many recorded executions, each starting with a     *)
(* "reset" event; every other line is one Writer call with the logged      *)
(* result, IsInStruct, and (at Finish) every byte emitted so far.          *)
(* Because WriterProto!Step is set-valued at its permissive points, the    *)
(* trace specification tracks the SET ws of specification states that      *)
(* explain the execution so far (subset construction), which makes the     *)
(* validation one deterministic behaviour, linear in the trace length.     *)
(* An event that no specification state explains is a rejection: it is     *)
(* recorded in `failed` and validation resumes at the next execution, so   *)
(* one rejection never leaves the rest of the file unexamined.             *)
(***************************************************************************)
EXTENDS WriterProto, IonBinary, IonText, Json, TLC

CONSTANTS TraceFile, VerdictFile

FixedA == << <<97>> >>

Trace == ndJsonDeserialize(TraceFile)

VARIABLES ws, l, failed, cur
tvars == <<ws, l, failed, cur>>

Ev == Trace[l]

IsBin(mode) == mode \in {"binary", "binlst"}

\* the bytes emitted so far denote exactly the finished values
OutputOK(mode, out, done) ==
  IF out = <<>> THEN done = <<>>
  ELSE LET d == IF IsBin(mode) THEN BinDecode(out, <<>>) ELSE TextDecode(out)
       IN d.ok /\ ForestEquiv(d.forest, done)

OutputWhy(mode, out, done) ==
  IF out = <<>> THEN "nothing emitted although values were finished"
  ELSE LET d == IF IsBin(mode) THEN BinDecode(out, <<>>) ELSE TextDecode(out)
       IN IF ~d.ok THEN "output rejected by the specification's decoder: " \o d.why
          ELSE "output decodes to other values than the calls that succeeded"

\* specification states that explain the logged call
ResMatches(e) == UNION {{w2 \in Step(w, e.c) : w2.res = e.res} : w \in ws}
Explains(e) ==
  {w2 \in ResMatches(e) :
      /\ (~w2.err => InStruct(w2) = e.ins)
      /\ (e.c.op = "Finish" /\ e.res = "ok") => (OutputOK(w2.mode, e.out, w2.done) /\ e.same)}

WhyNot(e) ==
  IF ResMatches(e) = {} THEN
       "call returned " \o e.res \o " where the specification requires " \o
       (IF \E w \in ws : \E w2 \in Step(w, e.c) : w2.res = "ok" THEN "ok" ELSE "err")
  ELSE IF \A w2 \in ResMatches(e) : ~w2.err /\ InStruct(w2) # e.ins THEN "IsInStruct differs"
  ELSE IF e.c.op = "Finish" /\ e.res = "ok" /\ ~e.same THEN "same calls emitted different bytes on a second run"
  ELSE IF e.c.op = "Finish" /\ e.res = "ok"
       THEN LET w2 == CHOOSE x \in ResMatches(e) : TRUE IN OutputWhy(w2.mode, e.out, w2.done)
  ELSE "no specification state explains the event"

NextReset(i) == CHOOSE j \in (i + 1)..(Len(Trace) + 1) :
                   /\ (j = Len(Trace) + 1 \/ Trace[j].e = "reset")
                   /\ \A k \in (i + 1)..(j - 1) : Trace[k].e # "reset"

TraceInit == /\ ws = {} /\ l = 1 /\ failed = <<>> /\ cur = [id |-> "", start |-> 0]

TraceReset == /\ l <= Len(Trace) /\ Ev.e = "reset"
              /\ ws' = {InitW(Ev.mode)} /\ cur' = [id |-> Ev.id, start |-> l] /\ l' = l + 1 /\ UNCHANGED failed

TraceCall == /\ l <= Len(Trace) /\ Ev.e = "call"
             /\ LET ex == Explains(Ev)
                IN IF ex # {}
                   THEN ws' = ex /\ l' = l + 1 /\ UNCHANGED <<failed, cur>>
                   ELSE /\ failed' = Append(failed, [id |-> cur.id, call |-> l - cur.start, why |-> WhyNot(Ev)])
                        /\ l' = NextReset(l) /\ ws' = {} /\ UNCHANGED cur

TraceDone == /\ l = Len(Trace) + 1
             /\ ndJsonSerialize(VerdictFile, <<[events |-> Len(Trace), failed |-> failed]>>)
             /\ l' = l + 1 /\ UNCHANGED <<ws, failed, cur>>

TraceNext == TraceReset \/ TraceCall \/ TraceDone
TraceSpec == TraceInit /\ [][TraceNext]_tvars

\* Acceptance: the verdict file is written only by TraceDone, i.e. after every event was
\* either explained or recorded in `failed`; the check requires the file and an empty `failed`.
=============================================================================
