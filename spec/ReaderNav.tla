----------------------------- MODULE ReaderNav -----------------------------
(***************************************************************************)
(* The ion.Reader cursor as a state machine over a constant forest (C08).  *)
(*                                                                         *)
(*   s.path  indices of the containers stepped into, outermost first       *)
(*   s.idx   position at the current level: 0 before the first value,      *)
(*           k on / just after the k-th value, Len+1 past the last one     *)
(*   s.on    positioned ON a value (Type() # NoType)                       *)
(*                                                                         *)
(* One action per Reader method.  Refused calls (StepIn on a scalar, a     *)
(* null container or no value; StepOut at top level; an accessor of the    *)
(* wrong type) return an error and change nothing.  What the Reader shows  *)
(* (Type, IsNull, FieldName, Annotations, value, IsInStruct) is Obs(s): a  *)
(* function of the position alone - however the position was reached.      *)
(***************************************************************************)
EXTENDS IonData

NoName == [k |-> "none", text |-> <<>>, sid |-> -1]

IsContainerT(t) == t \in {"list", "sexp", "struct"}

\* members of a container (or of the top level) as [name, val] items
ItemsOf(v) == IF v.t = "struct" THEN v.v ELSE [i \in 1..Len(v.v) |-> [name |-> NoName, val |-> v.v[i]]]
TopItems(doc) == [i \in 1..Len(doc) |-> [name |-> NoName, val |-> doc[i]]]

RECURSIVE ItemsAt(_, _)
ItemsAt(items, path) == IF path = <<>> THEN items ELSE ItemsAt(ItemsOf(items[Head(path)].val), Tail(path))

RECURSIVE KindAt(_, _, _)
KindAt(items, path, kind) == IF path = <<>> THEN kind
                             ELSE KindAt(ItemsOf(items[Head(path)].val), Tail(path), items[Head(path)].val.t)

Level(doc, s)    == ItemsAt(TopItems(doc), s.path)
InStructS(doc, s) == KindAt(TopItems(doc), s.path, "top") = "struct"

InitS == [path |-> <<>>, idx |-> 0, on |-> FALSE]

Exhausted(doc, s) == s.idx > Len(Level(doc, s))

\* each action returns [s |-> next state, res |-> "true"|"false"|"ok"|"err"]
NextA(doc, s) ==
  IF Exhausted(doc, s) THEN [s |-> [s EXCEPT !.on = FALSE], res |-> "false"]
  ELSE LET i == s.idx + 1
       IN IF i <= Len(Level(doc, s)) THEN [s |-> [s EXCEPT !.idx = i, !.on = TRUE], res |-> "true"]
          ELSE [s |-> [s EXCEPT !.idx = i, !.on = FALSE], res |-> "false"]

CurVal(doc, s) == Level(doc, s)[s.idx].val

StepInA(doc, s) ==
  IF s.on /\ IsContainerT(CurVal(doc, s).t) /\ ~CurVal(doc, s).null
  THEN [s |-> [path |-> Append(s.path, s.idx), idx |-> 0, on |-> FALSE], res |-> "ok"]
  ELSE [s |-> s, res |-> "err"]

StepOutA(doc, s) ==
  IF s.path = <<>> THEN [s |-> s, res |-> "err"]
  ELSE [s |-> [path |-> SubSeq(s.path, 1, Len(s.path) - 1), idx |-> s.path[Len(s.path)], on |-> FALSE], res |-> "ok"]

\* every accessor that does not fit the current value is refused and changes nothing
WrongAccA(doc, s) == [s |-> s, res |-> "err"]

Step(doc, s, op) ==
  CASE op = "Next" -> NextA(doc, s)
    [] op = "StepIn" -> StepInA(doc, s)
    [] op = "StepOut" -> StepOutA(doc, s)
    [] op = "WrongAcc" -> WrongAccA(doc, s)

Obs(doc, s) ==
  IF ~s.on THEN [type |-> "none", null |-> FALSE, field |-> NoName, ann |-> <<>>, val |-> <<>>, ins |-> InStructS(doc, s)]
  ELSE LET it == Level(doc, s)[s.idx]
           v  == it.val
       IN [type |-> v.t, null |-> v.null, field |-> it.name, ann |-> v.ann,
           val |-> IF v.null \/ IsContainerT(v.t) THEN <<>> ELSE v.v, ins |-> InStructS(doc, s)]

\* does a logged observation equal the specification's?
\* Off a value (Type() = NoType) only Type and IsInStruct are compared: what FieldName/Annotations
\* show there is the same for every way of reaching the position (after a trailing NOP pad inside
\* a struct ion-go still shows the pad's field id), so it is not a navigation matter.
ObsMatches(exp, got) ==
  /\ got.type = exp.type /\ got.null = exp.null /\ got.ins = exp.ins
  /\ (exp.type = "none" \/
        /\ (IF exp.field.k = "none" THEN got.field.k = "none" ELSE got.field.k # "none" /\ TokEq(exp.field, got.field))
        /\ AnnEq(exp.ann, got.ann))
  /\ (exp.type = "none" \/ exp.null \/ IsContainerT(exp.type)
      \/ Equiv(Val(exp.type, <<>>, exp.val), Val(got.type, <<>>, got.val)))

(* ---- the flattening: a plain full traversal visits exactly these positions ---- *)
WellFormedS(doc, s) ==
  /\ s.idx >= 0 /\ s.idx <= Len(Level(doc, s)) + 1
  /\ (s.on => s.idx >= 1 /\ s.idx <= Len(Level(doc, s)))
=============================================================================
