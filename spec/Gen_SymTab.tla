----------------------------- MODULE Gen_SymTab -----------------------------
(***************************************************************************)
(* GEN for C09: symbol-table configurations.                               *)
(*   shared table  [name, version, syms (texts; <<>> = a slot without      *)
(*                  text, as in the Go API), adj (-1 = not adjusted)]      *)
(*   case          [imports: Seq(shared table), locals: Seq(text),         *)
(*                  adds: Seq(text)]                                       *)
(* Exhaustive: no import or one import x all local lists x all Add         *)
(* sequences over the alphabet (bounded lengths).  Sampled: two and three  *)
(* imports, stream-driven.                                                 *)
(***************************************************************************)
EXTENDS SymTab, SequencesExt, Json, TLC
CONSTANTS StreamFile, OutFile, MaxLen, Exhaustive
Streams == ndJsonDeserialize(StreamFile)

\* texts: a, b, name (a system symbol's text), and <<>> (no text)
A == <<97>>   B == <<98>>   N == T_name   U == <<>>
Alphabet == <<A, B, N, <<99>>>>
AddAlphabet == <<A, B, N, <<99>>>>           \* Add never gets the empty text (open point)

SeqsUpTo(S, n) == UNION {[1..k -> S] : k \in 0..n}
AsSeq(f) == [i \in 1..Len(f) |-> f[i]]

\* the empty text is left out: whether "" in a Go symbol list is the empty symbol or a slot without text is an open point
SymLists == SetToSeq({AsSeq(f) : f \in SeqsUpTo({A, B, N, <<99>>}, MaxLen)})
AddLists == SetToSeq({AsSeq(f) : f \in SeqsUpTo({A, B, N, <<99>>}, MaxLen)})
Adjusts  == <<-1, 0, 1, 2, 3>>

Shared(nm, ver, syms, adj) == [name |-> nm, version |-> ver, syms |-> syms, adj |-> adj]
OneImports == [i \in 1..(Len(SymLists) * Len(Adjusts)) |->
                  <<Shared(<<116>>, 1, SymLists[((i - 1) \div Len(Adjusts)) + 1], Adjusts[((i - 1) % Len(Adjusts)) + 1])>>]
ImportChoices == << <<>> >> \o OneImports

ExhaustiveCases ==
  IF ~Exhaustive THEN <<>>
  ELSE FlattenSeq([i \in 1..Len(ImportChoices) |-> FlattenSeq([l \in 1..Len(SymLists) |->
         [a \in 1..Len(AddLists) |-> [imports |-> ImportChoices[i], locals |-> SymLists[l], adds |-> AddLists[a]]]])])

R(st, i) == st[((i - 1) % Len(st)) + 1]
PickS(seq, r) == seq[(r % Len(seq)) + 1]
RandList(st, i, alpha) == [k \in 1..(R(st, i) % 4) |-> PickS(alpha, R(st, i + k))]
RandShared(st, i, nm) == Shared(nm, 1 + (R(st, i) % 2), RandList(st, i + 1, Alphabet), PickS(<<-1, -1, 0, 1, 2, 3, 5>>, R(st, i + 6)))
RandCase(st) ==
  LET n == R(st, 1) % 4
  IN [imports |-> [k \in 1..n |-> RandShared(st, 10 * k, <<115 + k>>)],
      locals |-> RandList(st, 50, Alphabet), adds |-> RandList(st, 60, AddAlphabet)]
RandomCases == [i \in 1..Len(Streams) |-> RandCase(Streams[i].s)]

ASSUME ndJsonSerialize(OutFile, ExhaustiveCases \o RandomCases)
=============================================================================
