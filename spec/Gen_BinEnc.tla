----------------------------- MODULE Gen_BinEnc -----------------------------
(* GEN for C03: forests (slot cases x Reps choice streams, then random forests) each rendered by *)
(* the specification's binary encoder under a stream of representation choices.                  *)
EXTENDS Catalogue, IonBinaryEnc, Json, TLC
CONSTANTS StreamFile, OutFile, SlotReps
Streams == ndJsonDeserialize(StreamFile)     \* each: [s |-> forest stream, c |-> choice stream]
NS == Len(Streams)
SlotC == FlattenSeq([i \in 1..Len(SlotCases) |->
           [r \in 1..SlotReps |->
              LET c == Streams[((i * SlotReps + r) % NS) + 1].c
              IN [kind |-> "slot", forest |-> SlotCases[i], bytes |-> EncodeStream(SlotCases[i], c)]]])
\* random forests: every other one as a stream in two parts with a change of symbol context in between
Rand == [i \in 1..NS |-> LET f == GenForest(Streams[i].s)
                         IN [kind |-> IF i % 2 = 0 THEN "random-parts" ELSE "random", forest |-> f,
                             bytes |-> IF i % 2 = 0 THEN EncodeStreamParts(f, Streams[i].c) ELSE EncodeStream(f, Streams[i].c)]]
\* forests rich in symbol tokens (values, annotations, field names over a rotating window of catalogue texts, a
\* system symbol among them) behind padding imports that move the local symbols across the ID-width boundaries
Pads == <<117, 118, 245, 246, 247, 16373, 16374, 65525, 65526>>
SymV(t) == Val("symbol", <<>>, TextTok(t))
TextAt(k) == Texts[((k - 1) % Len(Texts)) + 1]
SymForest(w) == << SymV(TextAt(w)), SymV(TextAt(w + 1)), Annotated(SymV(TextAt(w + 2)), <<TextTok(TextAt(w + 3)), TextTok(TextAt(w))>>),
                   Val("struct", <<>>, << [name |-> TextTok(TextAt(w + 1)), val |-> SymV(TextAt(w + 4))],
                                          [name |-> TextTok(TextAt(w + 5)), val |-> Val("list", <<>>, <<SymV(TextAt(w + 5)), SymV(T_name)>>)] >>),
                   Val("sexp", <<>>, <<SymV(TextAt(w + 6)), SymV(TextAt(w))>>) >>
NPadded == 4
Padded == FlattenSeq([p \in 1..Len(Pads) |-> [i \in 1..NPadded |->
             LET f == SymForest(7 * i + p)
             IN [kind |-> "padded", forest |-> f, bytes |-> EncodeStreamPadded(f, Streams[((i + p) % NS) + 1].c, Pads[p])]]])
ASSUME ndJsonSerialize(OutFile, SlotC \o Rand \o Padded)
=============================================================================
