----------------------------- MODULE Gen_BinEnc -----------------------------
(* GEN for C03: forests (slot cases x Reps choice streams, then random forests) each rendered by *)
(* the specification's binary encoder under a stream of representation choices.                  *)
EXTENDS Catalogue, IonBinaryEnc, Json, TLC
CONSTANTS StreamFile, OutFile, SlotReps
Streams == ndJsonDeserialize(StreamFile)     \* each: [s |-> forest stream, c |-> choice stream]
NS == Len(Streams)
SlotC == FlattenSeq([i \in 1..Len(SlotCases) |->
           [r \in 1..SlotReps |->
              LET c == Streams[((i * SlotReps + r) % NS) + 1].c
              IN [kind |-> "slot", forest |-> SlotCases[i], bytes |-> EncodeStream(SlotCases[i], c)]]])
Rand == [i \in 1..NS |-> LET f == GenForest(Streams[i].s)
                         IN [kind |-> "random", forest |-> f, bytes |-> EncodeStream(f, Streams[i].c)]]
ASSUME ndJsonSerialize(OutFile, SlotC \o Rand)
=============================================================================
