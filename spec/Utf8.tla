-------------------------------- MODULE Utf8 --------------------------------
(***************************************************************************)
(* UTF-8 well-formedness (RFC 3629: no overlongs, no surrogates, max       *)
(* U+10FFFF) as a byte-fed state machine folded over the byte sequence,    *)
(* and encoding of code points.                                            *)
(***************************************************************************)
EXTENDS Integers, Sequences, SequencesExt

U8Init == [need |-> 0, lo |-> 128, hi |-> 191, ok |-> TRUE]

U8Step(s, b) ==
  IF ~s.ok THEN s
  ELSE IF s.need > 0
       THEN IF b >= s.lo /\ b <= s.hi
            THEN [need |-> s.need - 1, lo |-> 128, hi |-> 191, ok |-> TRUE]
            ELSE [s EXCEPT !.ok = FALSE]
       ELSE IF b < 128 THEN s
       ELSE IF b >= 194 /\ b <= 223 THEN [need |-> 1, lo |-> 128, hi |-> 191, ok |-> TRUE]
       ELSE IF b = 224 THEN [need |-> 2, lo |-> 160, hi |-> 191, ok |-> TRUE]
       ELSE IF b = 237 THEN [need |-> 2, lo |-> 128, hi |-> 159, ok |-> TRUE]
       ELSE IF b >= 225 /\ b <= 239 THEN [need |-> 2, lo |-> 128, hi |-> 191, ok |-> TRUE]
       ELSE IF b = 240 THEN [need |-> 3, lo |-> 144, hi |-> 191, ok |-> TRUE]
       ELSE IF b = 244 THEN [need |-> 3, lo |-> 128, hi |-> 143, ok |-> TRUE]
       ELSE IF b >= 241 /\ b <= 243 THEN [need |-> 3, lo |-> 128, hi |-> 191, ok |-> TRUE]
       ELSE [s EXCEPT !.ok = FALSE]

Utf8Valid(bs) == LET r == FoldLeft(U8Step, U8Init, bs) IN r.ok /\ r.need = 0

\* code point (0..0x10FFFF, not a surrogate) -> bytes
Utf8Encode(cp) ==
  IF cp < 128 THEN <<cp>>
  ELSE IF cp < 2048 THEN <<192 + (cp \div 64), 128 + (cp % 64)>>
  ELSE IF cp < 65536 THEN <<224 + (cp \div 4096), 128 + ((cp \div 64) % 64), 128 + (cp % 64)>>
  ELSE <<240 + (cp \div 262144), 128 + ((cp \div 4096) % 64), 128 + ((cp \div 64) % 64), 128 + (cp % 64)>>

IsSurrogate(cp) == cp >= 55296 /\ cp <= 57343
ValidCodePoint(cp) == cp >= 0 /\ cp <= 1114111 /\ ~IsSurrogate(cp)
=============================================================================
