\* MC: protocol properties on the content-hiding quotient, full alphabet
SPECIFICATION Spec
CONSTANTS
  Mode = "binlst"
  FixedTexts <- FixedA
  MaxLen = 0
  KeepHist = FALSE
  Use <- Full
  MaxDepth = 3
  MaxMembers = 2
  MaxAnn = 2
  MaxBatches = 2
VIEW View
INVARIANTS TypeOK NamesOnlyInStructs
PROPERTIES Sticky ErrSet FinishOk AppendOnly
CHECK_DEADLOCK FALSE
