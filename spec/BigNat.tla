------------------------------- MODULE BigNat -------------------------------
(***************************************************************************)
(* Natural numbers of any size as minimal big-endian byte sequences        *)
(* (<<>> is zero), because TLC integers are 32-bit.  All intermediate      *)
(* products stay below 2^31.                                               *)
(***************************************************************************)
EXTENDS Integers, Sequences, SequencesExt

RECURSIVE Strip(_)
Strip(b) == IF b # <<>> /\ b[1] = 0 THEN Strip(Tail(b)) ELSE b

IsZero(b) == Strip(b) = <<>>

\* small TLC integer (>= 0) -> bytes
RECURSIVE FromSmall(_)
FromSmall(n) == IF n = 0 THEN <<>> ELSE Append(FromSmall(n \div 256), n % 256)

\* bytes -> TLC integer, saturating at Huge = 2^30 (never overflows)
Huge == 1073741824
ToSmall(b) ==
  LET s == Strip(b)
  IN IF Len(s) > 4 THEN Huge
     ELSE LET v == FoldLeft(LAMBDA acc, x : IF acc >= 4194304 THEN Huge ELSE acc * 256 + x, 0, s)
          IN IF v > Huge THEN Huge ELSE v

\* comparison: -1, 0, 1
Cmp(a, b) ==
  LET x == Strip(a)  y == Strip(b)
  IN IF Len(x) # Len(y) THEN (IF Len(x) < Len(y) THEN -1 ELSE 1)
     ELSE IF x = y THEN 0
     ELSE LET i == CHOOSE i \in 1..Len(x) : x[i] # y[i] /\ \A j \in 1..(i-1) : x[j] = y[j]
          IN IF x[i] < y[i] THEN -1 ELSE 1

\* b * m + a   for small m (<= 2^16), a (<= 2^16)
MulSmallAdd(b, m, a) ==
  LET step(acc, x) == LET cur == x * m + acc.carry
                      IN [carry |-> cur \div 256, out |-> <<cur % 256>> \o acc.out]
      r == FoldRight(LAMBDA x, acc : step(acc, x), b, [carry |-> a, out |-> <<>>])
  IN Strip(FromSmall(r.carry) \o r.out)

\* <<quotient, remainder>> of b by small d (<= 2^16)
DivModSmall(b, d) ==
  LET step(acc, x) == LET cur == acc.rem * 256 + x
                      IN [rem |-> cur % d, out |-> Append(acc.out, cur \div d)]
      r == FoldLeft(step, [rem |-> 0, out |-> <<>>], b)
  IN <<Strip(r.out), r.rem>>

\* decimal digits (most significant first; <<>> for zero)
RECURSIVE ToDec(_)
ToDec(b) == IF IsZero(b) THEN <<>>
            ELSE LET qr == DivModSmall(Strip(b), 10) IN Append(ToDec(qr[1]), qr[2])

FromDec(digits) == FoldLeft(LAMBDA acc, d : MulSmallAdd(acc, 10, d), <<>>, digits)

\* digits in an arbitrary small radix (2, 16)
FromRadix(digits, radix) == FoldLeft(LAMBDA acc, d : MulSmallAdd(acc, radix, d), <<>>, digits)

\* addition / subtraction (a >= b for Sub) on big-endian bytes
PadTo(b, n) == [i \in 1..n |-> IF i <= n - Len(b) THEN 0 ELSE b[i - (n - Len(b))]]
Max2(x, y) == IF x > y THEN x ELSE y

Add(a, b) ==
  LET n == Max2(Len(a), Len(b))
      x == PadTo(a, n)  y == PadTo(b, n)
      step(i, acc) == LET cur == x[i] + y[i] + acc.carry
                      IN [carry |-> cur \div 256, out |-> <<cur % 256>> \o acc.out]
      r == FoldRight(step, [i \in 1..n |-> i], [carry |-> 0, out |-> <<>>])
  IN Strip(<<r.carry>> \o r.out)

Sub(a, b) ==      \* requires a >= b
  LET n == Max2(Len(a), Len(b))
      x == PadTo(a, n)  y == PadTo(b, n)
      step(i, acc) == LET cur == x[i] - y[i] - acc.borrow
                      IN IF cur < 0 THEN [borrow |-> 1, out |-> <<cur + 256>> \o acc.out]
                                    ELSE [borrow |-> 0, out |-> <<cur>> \o acc.out]
      r == FoldRight(step, [i \in 1..n |-> i], [borrow |-> 0, out |-> <<>>])
  IN Strip(r.out)

\* full multiplication, schoolbook over the bytes of b
Mul(a, b) ==
  FoldLeft(LAMBDA acc, y : Add(acc \o <<0>>, MulSmallAdd(a, y, 0)), <<>>, b)

RECURSIVE Pow10(_)
Pow10(n) == IF n = 0 THEN <<1>> ELSE MulSmallAdd(Pow10(n - 1), 10, 0)

\* number of significant bits
BitLen(b) ==
  LET s == Strip(b)
  IN IF s = <<>> THEN 0
     ELSE LET top == s[1]
              tb == CHOOSE k \in 1..8 : top >= 2^(k-1) /\ top < 2^k
          IN 8 * (Len(s) - 1) + tb

=============================================================================
