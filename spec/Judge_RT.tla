------------------------------ MODULE Judge_RT ------------------------------
(***************************************************************************)
(* Judge of write-then-read executions (C01, C04, C13, C15 ...).           *)
(* One observation = one forest written through one real Writer and read   *)
(* back through the real Reader:                                           *)
(*   [idx, mode, werr, wpanic, out, rerr, rpanic, back]                    *)
(* idx is the position of the expected forest in ForestFile.               *)
(*   c01: the real Reader's traversal of the bytes is Equiv to the forest  *)
(*   c04: the specification's own decoder accepts the bytes (valid,        *)
(*        self-contained Ion) and recovers exactly the forest              *)
(***************************************************************************)
EXTENDS IonText, Layout, Json, TLC

CONSTANTS ObsFile, ForestFile, VerdictFile

Obs     == ndJsonDeserialize(ObsFile)
Forests == ndJsonDeserialize(ForestFile)

IsBinMode(m) == m \in {"binary", "binlst", "binsid", "bintwice"}

C01(o, f) ==
  IF o.wpanic # "" THEN "writer panic"
  ELSE IF o.werr # "" THEN "refused"
  ELSE IF o.rpanic # "" THEN "reader panic"
  ELSE IF o.rerr # "" THEN "reader error"
  ELSE IF ForestEquiv(o.back, f) THEN "ok"
  ELSE "values differ"

C04(o, f) ==
  IF o.wpanic # "" THEN "writer panic"
  ELSE IF o.werr # "" THEN "refused"
  ELSE IF o.out = <<>> THEN (IF f = <<>> THEN "ok" ELSE "nothing emitted")
  ELSE LET d == IF IsBinMode(o.mode) THEN BinDecode(o.out, <<>>) ELSE TextDecode(o.out)
       IN IF ~d.ok THEN "rejected: " \o d.why
          ELSE IF ForestEquiv(d.forest, f) THEN "ok"
          ELSE "decodes to other values"

\* beyond the listed properties: layout of the pretty writer relative to the compact writer (spec/Layout.tla)
LayoutOf(o) ==
  IF o.mode # "pretty" \/ o.werr # "" \/ o.wpanic # "" THEN "n/a"
  ELSE LET ts == SelectSeq(Obs, LAMBDA x : x.idx = o.idx /\ x.mode = "text" /\ x.werr = "" /\ x.wpanic = "")
       IN IF ts = <<>> THEN "n/a"
          ELSE IF ~SameTokens(o.out, ts[1].out) THEN "pretty and compact output differ in more than white space"
          ELSE IF ~IndentOK(o.out) THEN "indentation is not one tab per open container"
          ELSE "ok"

\* modes bintwice and textquiet (TextWriterQuietFinish): the forest written as two datagrams of one writer;
\* mode textimp: a text writer created with a shared symbol table to import
Verdict(o) == LET f0 == Forests[o.idx].forest
                  f == IF o.mode \in {"bintwice", "textquiet"} THEN f0 \o f0 ELSE f0
              IN [idx |-> o.idx, mode |-> o.mode, c01 |-> C01(o, f), c04 |-> C04(o, f),
                  diff |-> IF o.werr = "" /\ o.rerr = "" THEN FirstDiff(f, o.back) ELSE 0,
                  layout |-> LayoutOf(o)]

ASSUME ndJsonSerialize(VerdictFile, [i \in 1..Len(Obs) |-> Verdict(Obs[i])])
=============================================================================
