------------------------------ MODULE Judge_RT ------------------------------
(***************************************************************************)
(* Judge of write-then-read executions (C01, C04, C13, C15 ...).           *)
(* One observation = one forest written through one real Writer and read   *)
(* back through the real Reader:                                           *)
(*   [idx, mode, werr, wpanic, out, rerr, rpanic, back]                    *)
(* idx is the position of the expected forest in ForestFile.               *)
(*   c01: the real Reader's traversal of the bytes is Equiv to the forest  *)
(*   c04: the specification's own decoder accepts the bytes (valid,        *)
(*        self-contained Ion) and recovers exactly the forest              *)
(***************************************************************************)
EXTENDS IonText, Json, TLC

CONSTANTS ObsFile, ForestFile, VerdictFile

Obs     == ndJsonDeserialize(ObsFile)
Forests == ndJsonDeserialize(ForestFile)

IsBinMode(m) == m \in {"binary", "binlst"}

C01(o, f) ==
  IF o.wpanic # "" THEN "writer panic"
  ELSE IF o.werr # "" THEN "refused"
  ELSE IF o.rpanic # "" THEN "reader panic"
  ELSE IF o.rerr # "" THEN "reader error"
  ELSE IF ForestEquiv(o.back, f) THEN "ok"
  ELSE "values differ"

C04(o, f) ==
  IF o.wpanic # "" THEN "writer panic"
  ELSE IF o.werr # "" THEN "refused"
  ELSE IF o.out = <<>> THEN (IF f = <<>> THEN "ok" ELSE "nothing emitted")
  ELSE LET d == IF IsBinMode(o.mode) THEN BinDecode(o.out, <<>>) ELSE TextDecode(o.out)
       IN IF ~d.ok THEN "rejected: " \o d.why
          ELSE IF ForestEquiv(d.forest, f) THEN "ok"
          ELSE "decodes to other values"

Verdict(o) == LET f == Forests[o.idx].forest
              IN [idx |-> o.idx, mode |-> o.mode, c01 |-> C01(o, f), c04 |-> C04(o, f),
                  diff |-> IF o.werr = "" /\ o.rerr = "" THEN FirstDiff(f, o.back) ELSE 0]

ASSUME ndJsonSerialize(VerdictFile, [i \in 1..Len(Obs) |-> Verdict(Obs[i])])
=============================================================================
