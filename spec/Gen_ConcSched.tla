--------------------------- MODULE Gen_ConcSched ---------------------------
(***************************************************************************)
(* GEN for C18: interleavings of a group of workers, as sequences of       *)
(* worker indices (one entry = one Step(w) of Conc at the grain of the     *)
(* instrumented sites).  An entry naming a finished worker is skipped by   *)
(* the replayer; when a schedule is used up the lowest unfinished worker   *)
(* runs.  Families:                                                        *)
(*   serial      every rotation of the workers, each run to completion     *)
(*   preempt     worker i runs p steps, worker j runs to completion, then  *)
(*               i resumes (every ordered pair; all p up to MaxPos, else   *)
(*               MaxPos positions drawn from the stream)                   *)
(*   quantum     round robin with quantum 1, 2, 5                          *)
(*   random      NRandom interleavings drawn from the stream with runs of  *)
(*               1..4 steps                                                *)
(***************************************************************************)
EXTENDS Naturals, Sequences, SequencesExt, Json, TLC
CONSTANTS GroupFile, StreamFile, OutFile, MaxPos, NRandom
Groups  == ndJsonDeserialize(GroupFile)     \* [id, lens]
Streams == ndJsonDeserialize(StreamFile)

Rep(w, n) == [k \in 1..n |-> w]
Serial(lens, r) == LET n == Len(lens) IN FlattenSeq([k \in 1..n |-> LET w == ((k + r - 2) % n) + 1 IN Rep(w, lens[w])])
Preempt(lens, i, p, j) == Rep(i, p) \o Rep(j, lens[j]) \o Rep(i, lens[i] - p)
Total(lens) == FoldLeft(LAMBDA a, b : a + b, 0, lens)
Quantum(lens, q) == LET n == Len(lens)  t == Total(lens) IN [k \in 1..(t * n) |-> (((k - 1) \div q) % n) + 1]
Random(lens, st, off) ==
  LET n == Len(lens)  t == Total(lens)
      At(k) == st[((off + k - 1) % Len(st)) + 1]
  IN FlattenSeq([k \in 1..t |-> Rep((At(2 * k) % n) + 1, (At(2 * k + 1) % 4) + 1)])

Positions(len, st, off) ==
  IF len - 1 <= MaxPos THEN [p \in 1..(len - 1) |-> p]
  ELSE [k \in 1..MaxPos |-> (st[((off + k - 1) % Len(st)) + 1] % (len - 1)) + 1]

SchedulesOf(g, gi) ==
  LET lens == g.lens  n == Len(lens)
      st == Streams[((gi - 1) % Len(Streams)) + 1].s
      row(kind, s) == [id |-> g.id, kind |-> kind, schedule |-> s]
  IN [r \in 1..n |-> row("serial", Serial(lens, r))]
     \o FlattenSeq(FlattenSeq([i \in 1..n |-> [j \in 1..n |->
          IF i = j \/ lens[i] < 2 THEN <<>>
          ELSE LET ps == Positions(lens[i], st, 17 * i + 5 * j)
               IN [k \in 1..Len(ps) |-> row("preempt", Preempt(lens, i, ps[k], j))]]]))
     \o <<row("quantum", Quantum(lens, 1)), row("quantum", Quantum(lens, 2)), row("quantum", Quantum(lens, 5))>>
     \o [k \in 1..NRandom |-> row("random", Random(lens, st, 101 * k))]

ASSUME ndJsonSerialize(OutFile, FlattenSeq([gi \in 1..Len(Groups) |-> SchedulesOf(Groups[gi], gi)]))
=============================================================================
