------------------------------- MODULE IOEnv -------------------------------
(***************************************************************************)
(* The I/O environment of a Reader (C19): an io.Reader that hands over a   *)
(* document of N bytes according to a delivery schedule, and a buffered    *)
(* consumer (bufio.Reader semantics) that demands bytes with Read1,        *)
(* Peek(k) and Discard(k).                                                 *)
(*                                                                         *)
(*   delivered  bytes handed over so far          eof   EOF handed over    *)
(*   failed     the source has failed (at byte FailAt; FailAt > N = never)      *)
(*   consumed   bytes the consumer has taken      demand what it waits for *)
(*   out        what the consumer concluded: "running" | "eof" | "error"   *)
(*                                                                         *)
(* The environment may deliver any positive number of bytes (or none), and *)
(* may hand over EOF together with the last bytes or on its own.           *)
(* ChunkIndependence: what the consumer takes and concludes is a function  *)
(* of the document and of FailAt alone, never of the schedule:             *)
(*   FailAt > N  => it ends with consumed = N and out = "eof"             *)
(*   FailAt <= N => it ends with out = "error" (never a clean "eof") and  *)
(*                   consumed <= FailAt                                    *)
(***************************************************************************)
EXTENDS Integers, Sequences

CONSTANTS N, FailAt, MaxPeek

VARIABLES delivered, eof, failed, consumed, demand, out
vars == <<delivered, eof, failed, consumed, demand, out>>

Limit == IF FailAt > N THEN N ELSE FailAt        \* bytes the source can ever hand over

Init == /\ delivered = 0 /\ eof = FALSE /\ failed = FALSE /\ consumed = 0 /\ demand = 0 /\ out = "running"

\* the environment
Deliver == /\ out = "running" /\ ~eof /\ ~failed /\ delivered < Limit
           /\ \E n \in 1..(Limit - delivered) :
                /\ delivered' = delivered + n
                /\ eof' \in (IF delivered + n = N /\ FailAt > N THEN {TRUE, FALSE} ELSE {FALSE})   \* EOF with the last bytes, or later
           /\ UNCHANGED <<failed, consumed, demand, out>>
DeliverNothing == /\ out = "running" /\ ~eof /\ ~failed /\ UNCHANGED vars      \* a zero-length read (stuttering)
SignalEOF == /\ out = "running" /\ ~eof /\ FailAt > N /\ delivered = N /\ eof' = TRUE
             /\ UNCHANGED <<delivered, failed, consumed, demand, out>>
Fail == /\ out = "running" /\ ~failed /\ FailAt <= N /\ delivered = FailAt /\ failed' = TRUE
        /\ UNCHANGED <<delivered, eof, consumed, demand, out>>

\* the consumer: asks for k more bytes (a Peek of k, or a read of 1), then takes some or all of them
Ask == /\ out = "running" /\ demand = 0
       /\ \E k \in 1..MaxPeek : demand' = k
       /\ UNCHANGED <<delivered, eof, failed, consumed, out>>
Take == /\ out = "running" /\ demand > 0 /\ delivered - consumed >= demand
        /\ \E k \in 1..demand : consumed' = consumed + k          \* after a Peek of demand bytes the consumer reads at least one
        /\ demand' = 0 /\ UNCHANGED <<delivered, eof, failed, out>>
\* fewer bytes than asked for are left: the consumer takes what there is and learns why
Short == /\ out = "running" /\ demand > 0 /\ delivered - consumed < demand /\ (eof \/ failed)
         /\ consumed' = delivered /\ demand' = 0
         /\ out' = IF failed THEN "error" ELSE "eof"
         /\ UNCHANGED <<delivered, eof, failed>>

Next == Deliver \/ SignalEOF \/ Fail \/ Ask \/ Take \/ Short
Spec == Init /\ [][Next]_vars /\ WF_vars(Next)

TypeOK == /\ delivered \in 0..N /\ consumed \in 0..delivered /\ demand \in 0..MaxPeek
          /\ out \in {"running", "eof", "error"}
NeverAhead == consumed <= delivered /\ delivered <= Limit
ChunkIndependence ==
  /\ (out = "eof"   => FailAt > N /\ consumed = N)             \* a clean end only when everything arrived
  /\ (out = "error" => FailAt <= N /\ consumed <= FailAt)       \* a source failure is never mistaken for the end
Terminates == <>(out # "running")
=============================================================================
