---------------------------- MODULE WriterProto ----------------------------
(***************************************************************************)
(* The ion.Writer protocol as a state machine, one action per Writer       *)
(* method, shaped after writer.go / textwriter.go / binarywriter.go:       *)
(* beginValue is the single place where a pending field name and pending   *)
(* annotations are consumed or a value is refused; End* checks only the    *)
(* top of the container stack; Finish is split into "refused inside a      *)
(* container" and "finish the batch".                                      *)
(*                                                                         *)
(* The writer state is one record w:                                       *)
(*   mode   "text" | "pretty" | "binary" | "binlst"                        *)
(*   stack  Seq("list"|"sexp"|"struct")        container stack (ctxstack)  *)
(*   pfield pending field-name token or NoTok   (writer.fieldName)         *)
(*   pann   pending annotation tokens           (writer.annotations)       *)
(*   err    sticky error                        (writer.err)               *)
(*   open   open[i] = members built so far at depth i-1                    *)
(*   heads  heads[i] = [kind, name, ann] of the container open at depth i  *)
(*   done   the values of all finished batches, in order                   *)
(*   nbatch number of successful Finish calls                              *)
(*   res    result of the last call: "ok" | "err"                          *)
(*                                                                         *)
(* Step(w, c) is the SET of states the call c may lead to.  It is a        *)
(* singleton except at the points where the Writer documentation is        *)
(* silent (see "permissive" below), so that a refactoring of ion-go that   *)
(* keeps the documented contract is never rejected.  Every call has an     *)
(* outcome in every state: no call is ever disabled (the specification     *)
(* side of "no call panics").                                              *)
(***************************************************************************)
EXTENDS IonData, SymTab

CONSTANT FixedTexts      \* binlst mode: the symbol texts (bytes) the fixed table defines, a sequence

NoTok  == [k |-> "none", text |-> <<>>, sid |-> -1]
BadTok == [k |-> "bad", text |-> <<>>, sid |-> -1]     \* token with neither text nor id

FixedCtx == SystemSlots \o [i \in 1..Len(FixedTexts) |-> Slot(FixedTexts[i])]

\* Can this token be written in this mode?  Text outside a fixed table cannot;
\* symbol IDs are meaningful only when the stream's table defines them.
Usable(mode, tok) ==
  \/ tok.k = "text" /\ (mode = "binlst" => Defines(FixedCtx, tok.text))
  \/ tok.k = "sid" /\ (IF mode = "binlst" THEN ValidSid(FixedCtx, tok.sid) ELSE ValidSid(SystemSlots, tok.sid))

\* What a reader of the output will see for a written token
Written(mode, tok) ==
  IF tok.k = "text" THEN TextTok(tok.text)
  ELSE Resolve(IF mode = "binlst" THEN FixedCtx ELSE SystemSlots, tok.sid)

InitW(mode) == [mode |-> mode, stack |-> <<>>, pfield |-> NoTok, pann |-> <<>>, err |-> FALSE,
                open |-> << <<>> >>, heads |-> <<>>, done |-> <<>>, nbatch |-> 0, res |-> "ok"]

Top(w)      == IF w.stack = <<>> THEN "top" ELSE w.stack[Len(w.stack)]
InStruct(w) == Top(w) = "struct"

\* a refused call: nothing changes except the result and (if sticky) the error flag
Refuse(w, sticky) == [w EXCEPT !.res = "err", !.err = (w.err \/ sticky)]
Already(w) == {[w EXCEPT !.res = "err"]}          \* the writer is already in error

\* beginValue: a value can start iff a usable field name is pending inside a struct
\* and every pending annotation is usable
CanBegin(w) == /\ InStruct(w) => Usable(w.mode, w.pfield)
               /\ \A i \in 1..Len(w.pann) : Usable(w.mode, w.pann[i])

AnnOf(w)  == [i \in 1..Len(w.pann) |-> Written(w.mode, w.pann[i])]
NameOf(w) == IF InStruct(w) THEN Written(w.mode, w.pfield) ELSE NoTok

Put(w, v) == [w.open EXCEPT ![Len(w.open)] = Append(@, [name |-> NameOf(w), val |-> [v EXCEPT !.ann = AnnOf(w)]])]

\* every Write<Scalar> method: v is the value without annotations
Scalar(w, v) ==
  IF w.err THEN Already(w)
  ELSE IF ~CanBegin(w) THEN {Refuse(w, TRUE)}
  ELSE {[w EXCEPT !.open = Put(w, v), !.pfield = NoTok, !.pann = <<>>, !.res = "ok"]}

WriteSymbol(w, tok) ==
  IF w.err THEN Already(w)
  ELSE IF ~Usable(w.mode, tok) THEN {Refuse(w, TRUE)}
  ELSE Scalar(w, Val("symbol", <<>>, Written(w.mode, tok)))

FieldName(w, tok) ==
  IF w.err THEN Already(w)
  ELSE IF ~InStruct(w) THEN {Refuse(w, TRUE)}
  ELSE \* permissive: an unusable token may be refused now or when the value is written;
       \* a second FieldName may overwrite or be refused
       {[w EXCEPT !.pfield = tok, !.res = "ok"]}
       \cup (IF ~Usable(w.mode, tok) \/ w.pfield # NoTok THEN {Refuse(w, TRUE)} ELSE {})

Annotations(w, toks) ==
  IF w.err THEN Already(w)
  ELSE {[w EXCEPT !.pann = w.pann \o toks, !.res = "ok"]}
       \cup (IF \E i \in 1..Len(toks) : ~Usable(w.mode, toks[i]) THEN {Refuse(w, TRUE)} ELSE {})

Begin(w, kind) ==
  IF w.err THEN Already(w)
  ELSE IF ~CanBegin(w) THEN {Refuse(w, TRUE)}
  ELSE {[w EXCEPT !.stack = Append(@, kind),
                  !.heads = Append(@, [kind |-> kind, name |-> NameOf(w), ann |-> AnnOf(w)]),
                  !.open = Append(@, <<>>), !.pfield = NoTok, !.pann = <<>>, !.res = "ok"]}

PendingStuff(w) == w.pfield # NoTok \/ w.pann # <<>>

End(w, kind) ==
  IF w.err THEN Already(w)
  ELSE IF Top(w) # kind THEN {Refuse(w, TRUE)}
  ELSE LET h  == w.heads[Len(w.heads)]
           body == IF kind = "struct" THEN w.open[Len(w.open)]
                   ELSE [i \in 1..Len(w.open[Len(w.open)]) |-> w.open[Len(w.open)][i].val]
           v  == [name |-> h.name, val |-> Val(kind, h.ann, body)]
           o2 == SubSeq(w.open, 1, Len(w.open) - 1)
       IN {[w EXCEPT !.open = [o2 EXCEPT ![Len(o2)] = Append(@, v)],
                     !.stack = SubSeq(@, 1, Len(@) - 1),
                     !.heads = SubSeq(@, 1, Len(@) - 1),
                     !.pfield = NoTok, !.pann = <<>>, !.res = "ok"]}
          \* permissive: a dangling field name / annotations may be dropped or refused
          \cup (IF PendingStuff(w) THEN {Refuse(w, TRUE)} ELSE {})

TopValues(w) == [i \in 1..Len(w.open[1]) |-> w.open[1][i].val]

Finish(w) ==
  IF w.err THEN Already(w)
  ELSE IF w.stack # <<>> THEN {Refuse(w, FALSE), Refuse(w, TRUE)}   \* permissive: may or may not poison
  ELSE {[w EXCEPT !.done = @ \o TopValues(w), !.open = << <<>> >>, !.nbatch = @ + 1,
                  !.pfield = NoTok, !.pann = <<>>, !.res = "ok"]}
       \cup (IF PendingStuff(w) THEN {Refuse(w, FALSE), Refuse(w, TRUE)} ELSE {})

(***************************************************************************)
(* Calls are records [op, ...]; Step dispatches.                           *)
(*   [op |-> "FieldName", tok]  [op |-> "Annotation", tok]                 *)
(*   [op |-> "Annotations", toks]  [op |-> "WriteSymbol", tok]             *)
(*   [op |-> "Scalar", m |-> method name, v |-> value]                     *)
(*   [op |-> "Begin", kind]  [op |-> "End", kind]  [op |-> "Finish"]       *)
(***************************************************************************)
Step(w, c) ==
  CASE c.op = "FieldName"   -> FieldName(w, c.tok)
    [] c.op = "Annotation"  -> Annotations(w, <<c.tok>>)
    [] c.op = "Annotations" -> Annotations(w, c.toks)
    [] c.op = "WriteSymbol" -> WriteSymbol(w, c.tok)
    [] c.op = "Scalar"      -> Scalar(w, c.v)
    [] c.op = "Begin"       -> Begin(w, c.kind)
    [] c.op = "End"         -> End(w, c.kind)
    [] c.op = "Finish"      -> Finish(w)

(***************************************************************************)
(* Properties of the protocol (checked by MC_WriterProto)                  *)
(***************************************************************************)
WellFormed(w) == /\ Len(w.open) = Len(w.stack) + 1
                 /\ Len(w.heads) = Len(w.stack)
                 /\ \A i \in 1..Len(w.stack) : w.heads[i].kind = w.stack[i]

\* Sticky: once in error, every call returns an error and the writer stays in error
StickyStep(w, w2)    == w.err => (w2.err /\ w2.res = "err")
\* a failing call other than Finish poisons the writer
ErrSetStep(w, c, w2) == (w2.res = "err" /\ c.op # "Finish") => w2.err
\* a successful Finish means: at top level, nothing open, everything written is in done
FinishOkStep(w, c, w2) == (c.op = "Finish" /\ w2.res = "ok") =>
                             /\ w.stack = <<>> /\ w2.open = << <<>> >>
                             /\ w2.done = w.done \o TopValues(w)
\* values only ever get appended
AppendOnlyStep(w, w2) == /\ Len(w2.done) >= Len(w.done)
                         /\ SubSeq(w2.done, 1, Len(w.done)) = w.done
=============================================================================
