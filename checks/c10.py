"""C10 — symbols in a stream resolve against the symbol table in force at that point.

MC   : MC_SymCtx — the context machine (reset on a version marker, replace, append, import resolution
       against a catalogue) keeps the system prefix, never renumbers on append, forgets on reset.
GEN  : every stream of up to N items over {version marker, 50 replacing tables (10 import lists x 5 symbol
       lists, two of them with elements that are not strings), 4 appending tables, 9 symbol IDs} for each of 5 catalogues (history in state, tlc -dump),
       plus seeded longer streams; each rendered in binary (spec encoder under choice streams) and text.
       Expected: the specification's decoder on the rendered bytes, which must agree with the machine.
EXEC : real Reader with a real Catalog; each user value shows its symbol as annotation, field name, value.
JUDGE: read-back Equiv to the decoder's forest (Judge_RT); a stream the decoder rejects (symbol ID beyond
       max_id, import without max_id and without an exact catalogue match) must end in an error.
"""
import json
import os
import random
import time

from vlib import core, rt

PROP = "C10"
NTABLES = 1 + 50 + 4          # version marker, 10 import lists x 5 symbol lists replacing, 4 appending
NITEMS = NTABLES + 9            # + 9 symbol IDs


GAP_SYMPTOM = "a symbol ID whose slot has no text (non-string element of a symbols list) is shown as the empty symbol ''"


def gapnorm(x):
    """The forest with every token that is either 'ID without text' or 'empty text' replaced by one marker: two
    forests equal under it differ only in how a slot without text is shown."""
    if isinstance(x, dict):
        if set(x.keys()) == {"k", "sid", "text"}:
            if x["k"] == "sid" or (x["k"] == "text" and x["text"] == []):
                return "GAP"
            return dict(k=x["k"], text=x["text"])
        return {k: gapnorm(v) for k, v in x.items()}
    if isinstance(x, list):
        return [gapnorm(v) for v in x]
    return x


def judge(wd, cases, tag="c10"):
    """cases: Gen_SymCtx records.  Returns list of (case, problem or None)."""
    acc = [c for c in cases if c["expect"] == "accept"]
    rej = [c for c in cases if c["expect"] == "reject"]
    out = []
    if acc:
        vs, obs = rt.exec_and_judge(wd, [dict(forest=c["forest"], bytes=c["bytes"], mode=c["fmt"], cat=c["cat"]) for c in acc],
                                    sub="read", tag=tag + "a")
        for c, v, o in zip(acc, vs, obs):
            sym = v["c01"]
            if sym == "values differ" and gapnorm(c["forest"]) == gapnorm(o.get("back")):
                sym = GAP_SYMPTOM
            out.append((c, None if sym == "ok" else dict(symptom=sym, rerr=o.get("rerr", "")[:200], back=o.get("back"))))
    if rej:
        d = wd.sub(tag + "r")
        core.write_ndjson(os.path.join(d, "in.ndjson"), [dict(bytes=c["bytes"], mode=c["fmt"], cat=c["cat"]) for c in rej])
        core.run_harness("read", os.path.join(d, "in.ndjson"), os.path.join(d, "obs.ndjson"))
        for c, o in zip(rej, core.read_ndjson(os.path.join(d, "obs.ndjson"))):
            bad = None
            if o["rpanic"]:
                bad = dict(symptom="panic", rerr=o["rpanic"])
            elif o["errAfter"] == "" and o["rerr"] == "":
                bad = dict(symptom="no error although the specification rejects the stream: " + c["why"], rerr="", back=o.get("back"))
            out.append((c, bad))
    return out


def run(tier):
    t0 = time.time()
    maxlen, nlong = (2, 400) if tier == "quick" else (2, 8000)
    verdicts = core.Verdicts(PROP)
    with core.Workdir("c10") as wd:
        dm = wd.sub("mc")
        core.write_cfg(os.path.join(dm, "mc.cfg"), ["SPECIFICATION Spec", "CONSTANTS", "  MaxLen = %d" % maxlen,
                                                    "INVARIANTS SysPrefix", "PROPERTIES Keeps Resets Grows",
                                                    "CHECK_DEADLOCK FALSE"])
        rmc = core.run_tlc(dm, "MC_SymCtx", "mc.cfg", workers=6, args=["-dump", "states.dump"], heap="6g")
        hists = set()
        cat = None
        import re
        rc_ = re.compile(r"^/\\ cat = (\d+)")
        with open(os.path.join(dm, "states.dump")) as f:
            for line in f:
                m = rc_.match(line)
                if m:
                    cat = int(m.group(1))
                    continue
                m = core.HIST_RE.match(line)
                if m and m.group(1).strip():
                    hists.add((cat, tuple(int(x) for x in m.group(1).split(","))))
        os.remove(os.path.join(dm, "states.dump"))
        # keep maximal histories only (a prefix is covered by its extensions unless it ended in an error)
        allh = sorted(hists)
        prefixes = {(c, h[:-1]) for c, h in allh}
        leaves = [(c, h) for c, h in allh if (c, h) not in prefixes]
        # structured streams of three and four items (the exhaustive part stops at two): every replacing table followed
        # by every appending table and every symbol ID; two appends; a version marker between tables; in the thorough
        # tier every pair of replacing tables
        ncat = len({c for c, _ in allh})
        REPL, APP, VALS = range(2, NTABLES - 3), range(NTABLES - 3, NTABLES + 1), range(NTABLES + 1, NITEMS + 1)
        fam = []
        for c in range(1, ncat + 1):
            fam += [(c, (r, a, v)) for r in REPL for a in APP for v in VALS]
            fam += [(c, (a, b, v)) for a in APP for b in APP for v in VALS]
            fam += [(c, (r, 1, a, v)) for r in REPL[::3] for a in APP for v in VALS]
            fam += [(c, (r, v, a, v)) for r in REPL[::2] for a in APP[:2] for v in VALS[3:]]
            if tier != "quick":
                fam += [(c, (r, q, v)) for r in REPL for q in REPL for v in VALS]
        rnd = random.Random(core.seed() * 104729 + 10)
        if tier == "quick":
            fam = rnd.sample(fam, 2500)      # a seeded sixth of the structured streams; the thorough tier runs them all
        leaves += fam
        for _ in range(nlong):
            n = rnd.randint(3, 8)
            # bias towards tables followed by values
            h = tuple(rnd.choice([rnd.randint(1, NTABLES), rnd.randint(NTABLES + 1, NITEMS), rnd.randint(NTABLES + 1, NITEMS)]) for _ in range(n))
            leaves.append((rnd.randint(1, ncat), h))
        nsh = 12
        shards = core.shard(leaves, nsh)

        def gen(k):
            d = wd.sub("gen%d" % k)
            core.write_ndjson(os.path.join(d, "hists.ndjson"), [dict(cat=c, h=list(h)) for c, h in shards[k]])
            core.write_ndjson(os.path.join(d, "streams.ndjson"), core.streams(16, 400, core.seed(), 100 + k, hi=1 << 16))
            core.tlc_eval(d, "Gen_SymCtx", dict(HistFile="hists.ndjson", StreamFile="streams.ndjson", OutFile="cases.ndjson", MaxLen=0),
                          heap="4g", extra=["INIT Init", "NEXT Next", "CHECK_DEADLOCK FALSE"])
            return core.read_ndjson(os.path.join(d, "cases.ndjson"))
        cases = [c for cs in core.parallel([lambda k=k: gen(k) for k in range(nsh)]) for c in cs]
        lawbreak = [c for c in cases if not c["law"]]
        if lawbreak:
            raise core.MachineryError("SymCtx machine and decoder disagree on %d streams, e.g. cat=%s h=%s fmt=%s why=%s" %
                                      (len(lawbreak), lawbreak[0]["cat"], lawbreak[0]["h"], lawbreak[0]["fmt"], lawbreak[0]["why"]))
        cases = [c for c in cases if not c["why"].startswith(("open:", "limit:"))]
        res = judge(wd, cases)
        bad = [(c, b) for c, b in res if b]
        if bad:
            again = judge(wd, [c for c, _ in bad], tag="confirm")
            for (c, b), (_, a) in zip(bad, again):
                if not a:
                    raise core.MachineryError("failure did not reproduce on h=%s" % c["h"])
                sig = dict(fmt=c["fmt"], catalogue=[(bytes(e["name"]).decode(), e["version"], len(e["syms"])) for e in c["cat"]],
                           items=c["h"], symptom=a["symptom"], rerr=a.get("rerr", ""))
                verdicts.fail(sig, dict(case={k: c[k] for k in ("cat", "h", "fmt", "bytes", "expect", "why", "forest")}, observed=a))
        rc = verdicts.report()
        core.write_evidence(PROP, tier, "model_checking", dict(
            states=rmc["distinct"], transitions=rmc["generated"], traces_validated_against_impl=len(cases),
            evaluations=len(cases), distinct_nontrivial=len({(json.dumps(c["cat"]), tuple(c["h"])) for c in cases if len(c["h"]) >= 2}),
            rule="streams = leaves of the history tree of MC_SymCtx (all item sequences up to length %d, %d catalogues) + %d structured "
                 "streams (replace-append-value, append-append-value, replace-marker-append-value, replace-value-append-value%s) + %d "
                 "seeded streams of 3..8 items; each rendered in binary and text; non-trivial = at least two items"
                 % (maxlen, ncat, len(fam), "" if tier == "quick" else ", replace-replace-value", nlong),
            exhaustive=True, expected_reject=sum(1 for c in cases if c["expect"] == "reject"),
            rejected=len(bad), known_findings=verdicts.known,
            samples=[dict(fmt=c["fmt"], items=c["h"], doc=(bytes(c["bytes"]).hex() if c["fmt"] == "binary" else bytes(c["bytes"]).decode())[:200])
                     for c in cases[:2] + cases[-2:]]),
            time.time() - t0, len(verdicts.violations),
            assumptions=["the decoder's reading of local symbol tables (DESIGN.md Appendix D) and the SymCtx machine agree on every generated stream"])
    return rc


def replay(path):
    with open(path) as f:
        rp = json.load(f)
    with core.Workdir("c10r") as wd:
        res = judge(wd, [rp["case"]["case"]])
    if res[0][1]:
        print("VIOLATION property=%s replay=%s" % (PROP, path))
        print("  " + json.dumps(res[0][1])[:300])
        return 1
    print("replay: holds")
    return 0
