"""C19 — results do not depend on I/O chunking, and I/O failures are reported.

MC   : IOEnv.tla — the environment (an io.Reader handing over N bytes by any schedule, EOF with the last bytes
       or on its own, a failure at byte FailAt) and a buffered consumer (Read/Peek/Discard): TLC checks
       ChunkIndependence (a clean end only when everything arrived; a failure is never mistaken for the end)
       and termination for every schedule, for N up to 6 and every FailAt.
GEN  : Gen_IOSched — for each document: every single split point, byte at a time, seeded chunkings with
       zero-length reads, EOF with the last bytes or apart, a source failure at every byte offset.  Documents:
       spec-encoded binary, spec-spelled text (maximal lookahead: comments, long strings, \\r\\n), tricky
       literal text, truncated (invalid) documents, inputs shorter than the 4-byte format sniff.
       Writer half: a failure injected at every Write call, permanent and transient, for catalogue forests.
EXEC : real Readers over scheduled io.Readers; real Writers over failing io.Writers (every call recorded).
JUDGE: Judge_IO (TLC): reader observation equal to the one-piece run of the same Reader; a source failure
       gives Err() != nil; writer: an error by Finish, every later call fails, accepted bytes are a prefix.
"""
import json
import os
import time

from vlib import core, rt
from checks import c03

PROP = "C19"


def documents(wd, tier, seed):
    n = 60 if tier == "quick" else 600
    docs = []
    for c in c03.gen(wd, n, 0, seed)[0]:
        if len(c["bytes"]) <= 220:
            docs.append(dict(bytes=c["bytes"], origin="binary"))
    d2 = wd.sub("gentext")
    a = core.streams(n, 160, seed, 191)
    b = core.streams(n, 400, seed, 192, hi=1 << 16)
    core.write_ndjson(os.path.join(d2, "streams.ndjson"), [dict(s=x["s"], c=y["s"]) for x, y in zip(a, b)])
    core.tlc_eval(d2, "Gen_TextEnc", dict(StreamFile="streams.ndjson", OutFile="cases.ndjson", SlotReps=0), heap="6g")
    for c in core.read_ndjson(os.path.join(d2, "cases.ndjson")):
        if len(c["bytes"]) <= 220:
            docs.append(dict(bytes=c["bytes"], origin="text"))
    for line in open(os.path.join(core.VERIF, "spec", "navdocs.txt")):
        line = line.rstrip("\n").replace("\\n", "\n")
        if line:
            docs.append(dict(bytes=list(line.encode()), origin="literal-text"))
    extra = [b"", b"1", b"ab", b"\xe0\x01", b"\xe0\x01\x00", b"\xe0\x01\x00\xea", b"\xe0\x01\x00\xea\x21", b"\xe0\x02\x00\xea\x21\x01",
             b"a\r\nb", b"'''a\r\nb''' '''c'''", b"\"a\\\r\nb\"", b"+inf//c\n-inf", b"null.int null .", b"1e0/*c*/2", b"{{ aGk= }} {{\"x\"}}",
             b"[1, 2", b"{a:", b"\"abc", b"/* open", b"\xe0\x01\x00\xea\xb6\x21\x01", b"\xe0\x01\x00\xea\x8e\x90ab",
             b"$ion_symbol_table::{symbols:[\"s\"]} $10 $ion_1_0 $4"]
    for e in extra:
        docs.append(dict(bytes=list(e), origin="edge"))
    return docs


def run(tier):
    t0 = time.time()
    verdicts = core.Verdicts(PROP)
    with core.Workdir("c19") as wd:
        # MC of the environment model
        mc_states = mc_trans = 0
        dm = wd.sub("mc")
        for nbytes in ([4] if tier == "quick" else [4, 6]):
            for fail in list(range(0, nbytes + 1)) + [99]:
                core.write_cfg(os.path.join(dm, "io.cfg"), ["SPECIFICATION Spec", "CONSTANTS", "  N = %d" % nbytes, "  FailAt = %d" % fail,
                                                            "  MaxPeek = 4", "INVARIANTS TypeOK NeverAhead ChunkIndependence",
                                                            "PROPERTIES Terminates", "CHECK_DEADLOCK FALSE"])
                r = core.run_tlc(dm, "IOEnv", "io.cfg", workers=2, heap="2g")
                mc_states += r["distinct"]
                mc_trans += r["generated"]
        docs = documents(wd, tier, core.seed())
        dg = wd.sub("sched")
        core.write_ndjson(os.path.join(dg, "docs.ndjson"), [dict(len=len(d["bytes"])) for d in docs])
        core.write_ndjson(os.path.join(dg, "streams.ndjson"), core.streams(32, 1200, core.seed(), 19, hi=1 << 16))
        ms, mf, rp = (24, 24, 3) if tier == "quick" else (300, 300, 12)
        core.tlc_eval(dg, "Gen_IOSched", dict(DocFile="docs.ndjson", StreamFile="streams.ndjson", OutFile="scheds.ndjson",
                                              MaxSplits=ms, MaxFaults=mf, RandomPerDoc=rp), heap="6g")
        scheds = core.read_ndjson(os.path.join(dg, "scheds.ndjson"))
        cases = [dict(doc=s["doc"], bytes=docs[s["doc"] - 1]["bytes"], scheds=s["scheds"]) for s in scheds]
        forests, _ = rt.gen_forests(wd, 40 if tier == "quick" else 600, core.seed(), with_slots=(tier != "quick"), salt=19, tag="genw")

        def run_judge(sub, items, tag, nsh):
            shards = core.shard(items, max(1, min(nsh, len(items))))

            def job(k):
                d = wd.sub("%s%d" % (tag, k))
                core.write_ndjson(os.path.join(d, "in.ndjson"), shards[k])
                core.run_harness(sub, os.path.join(d, "in.ndjson"), os.path.join(d, "obs.ndjson"))
                core.tlc_eval(d, "Judge_IO", dict(ObsFile="obs.ndjson", VerdictFile="verdict.ndjson"), heap="4g")
                obs = core.read_ndjson(os.path.join(d, "obs.ndjson"))
                vs = core.read_ndjson(os.path.join(d, "verdict.ndjson"))
                if len(vs) != len(obs):
                    raise core.MachineryError("Judge_IO returned %d verdicts for %d observations" % (len(vs), len(obs)))
                return [(v, o, shards[k]) for v, o in zip(vs, obs)]
            return [x for xs in core.parallel([lambda k=k: job(k) for k in range(len(shards))]) for x in xs]

        rres = run_judge("chunk", cases, "rd", 14)
        wres = run_judge("wfault", [dict(forest=f["forest"]) for f in forests], "wr", 14)
        nbad = 0
        for v, o, _ in rres:
            if v["why"] != "ok":
                nbad += 1
                doc = docs[o["doc"] - 1]
                sig = dict(part="reader", why=v["why"], origin=doc["origin"], schedule=o["sched"],
                           doc=(bytes(doc["bytes"]).hex() if doc["origin"] == "binary" else bytes(doc["bytes"]).decode("latin1"))[:120],
                           got_err=o["got"]["err"][:120], base_err=o["base"]["err"][:120], panic=o["got"]["panic"][:120])
                verdicts.fail(sig, dict(part="reader", bytes=doc["bytes"], sched=o["sched"]))
        for v, o, _ in wres:
            if v["why"] != "ok":
                nbad += 1
                sig = dict(part="writer", why=v["why"], mode=o["mode"], write_call=o["k"], transient=o["transient"], results=o["results"][-8:])
                verdicts.fail(sig, dict(part="writer", obs={k: o[k] for k in ("mode", "k", "transient", "results", "finishAt")}))
        rc = verdicts.report()
        core.write_evidence(PROP, tier, "fault_enumeration", dict(
            evaluations=len(rres) + len(wres), distinct_nontrivial=len({(o["doc"], json.dumps(o["sched"])) for _, o, _ in rres}) + len(wres),
            rule="reader: %d documents x schedules (every single split up to %d, byte at a time, %d seeded chunkings, EOF with/apart, a "
                 "source failure at up to %d offsets); writer: %d forests x 3 modes x every Write call x {permanent, transient}; "
                 "distinct = distinct (document, schedule) pairs + writer fault runs" % (len(docs), ms, rp, mf, len(forests)),
            reader_runs=len(rres), writer_runs=len(wres), fault_runs=sum(1 for _, o, _ in rres if o["failAt"] >= 0),
            mc=dict(module="IOEnv", states=mc_states, transitions=mc_trans), rejected=nbad, known_findings=verdicts.known,
            samples=[dict(doc=o["doc"], sched=o["sched"]) for _, o, _ in rres[:3]] + [dict(mode=o["mode"], k=o["k"], transient=o["transient"], results=o["results"]) for _, o, _ in wres[:2]]),
            time.time() - t0, len(verdicts.violations),
            assumptions=["the reader oracle is relational: the same real Reader given the bytes in one piece",
                         "with an injected source failure only the nil-ness of Err() is compared"])
    return rc


def replay(path):
    with open(path) as f:
        rp = json.load(f)
    c = rp["case"]
    if c["part"] != "reader":
        print("replay: writer fault runs are re-created by the check itself")
        return 2
    with core.Workdir("c19r") as wd:
        d = wd.sub("r")
        core.write_ndjson(os.path.join(d, "in.ndjson"), [dict(doc=1, bytes=c["bytes"], scheds=[c["sched"]])])
        core.run_harness("chunk", os.path.join(d, "in.ndjson"), os.path.join(d, "obs.ndjson"))
        core.tlc_eval(d, "Judge_IO", dict(ObsFile="obs.ndjson", VerdictFile="verdict.ndjson"))
        v = core.read_ndjson(os.path.join(d, "verdict.ndjson"))[0]
    if v["why"] != "ok":
        print("VIOLATION property=%s replay=%s" % (PROP, path))
        print("  " + v["why"])
        return 1
    print("replay: holds")
    return 0
