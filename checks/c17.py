"""C17 — Unmarshal either fills the target faithfully or returns an error.

GEN  : Gen_Unmarshal — Ion values of every type (every typed null, symbols with and without text, integers at
       every Go width boundary +-1 and beyond 64 bits, floats beyond float32, lobs of several lengths, lists of
       mixed types, structs with unknown / duplicate / case-differing / textless field names, annotated values)
       in text and binary; streams of 0..4 values.
EXEC : the full matrix: every value x every Go target type (all integer widths, floats, string, []byte,
       arrays, slices, maps, pointers, interface{}, Timestamp, *Decimal, time.Time, big.Int, SymbolToken,
       annotation wrappers, structs) through Unmarshal under recover; Decoder.Decode until ErrNoInput + 2 calls.
JUDGE: Judge_Unmarshal / Judge_DecStream (TLC): never a panic; an error is always acceptable; a stored value
       must represent the Ion value (spec/Marshal.tla Faithful: exact integers and float bits, text, bytes,
       element-wise sequences, map entries) - never wrapped, truncated or zeroed.
"""
import json
import os
import time

from vlib import core

PROP = "C17"
TARGETS = ["bool", "int", "int8", "int16", "int32", "int64", "uint", "uint8", "uint16", "uint32", "uint64", "float32", "float64", "string",
           "bytes", "array4", "ints", "strings", "arr3", "map", "mapiface", "iface", "ifaces", "ptrint", "ptrptr", "timestamp", "decimalptr",
           "time", "bigint", "bigintptr", "scalars", "inner", "embed", "annint", "annlist", "token", "case"]


def run(tier):
    t0 = time.time()
    verdicts = core.Verdicts(PROP)
    with core.Workdir("c17") as wd:
        d = wd.sub("gen")
        rgen = core.tlc_eval(d, "Gen_Unmarshal", dict(OutFile="docs.ndjson", StreamOutFile="streams.ndjson"), heap="4g")
        docs = core.read_ndjson(os.path.join(d, "docs.ndjson"))
        sdocs = core.read_ndjson(os.path.join(d, "streams.ndjson"))

        def job_matrix(k, shards):
            dk = wd.sub("mx%d" % k)
            core.write_ndjson(os.path.join(dk, "cases.ndjson"), shards[k])
            core.write_ndjson(os.path.join(dk, "in.ndjson"), [dict(bytes=c["bytes"], types=TARGETS) for c in shards[k]])
            core.run_harness("unmarshal", os.path.join(dk, "in.ndjson"), os.path.join(dk, "obs.ndjson"))
            core.tlc_eval(dk, "Judge_Unmarshal", dict(ObsFile="obs.ndjson", CaseFile="cases.ndjson", VerdictFile="verdict.ndjson"), heap="4g")
            vs = core.read_ndjson(os.path.join(dk, "verdict.ndjson"))
            obs = core.read_ndjson(os.path.join(dk, "obs.ndjson"))
            return list(zip(shards[k], vs, obs))
        nsh = 12
        shards = core.shard(docs, nsh)
        res = [x for xs in core.parallel([lambda k=k: job_matrix(k, shards) for k in range(nsh)]) for x in xs]
        ds = wd.sub("stream")
        core.write_ndjson(os.path.join(ds, "cases.ndjson"), sdocs)
        core.write_ndjson(os.path.join(ds, "in.ndjson"), [dict(bytes=c["bytes"], types=[]) for c in sdocs])
        core.run_harness("unmarshal", os.path.join(ds, "in.ndjson"), os.path.join(ds, "obs.ndjson"))
        core.tlc_eval(ds, "Judge_DecStream", dict(ObsFile="obs.ndjson", CaseFile="cases.ndjson", VerdictFile="verdict.ndjson"))
        svs = core.read_ndjson(os.path.join(ds, "verdict.ndjson"))
        ncells = 0
        for c, v, o in res:
            ncells += len(o["res"])
            if v["why"] != "ok":
                # one signature per failing cell
                for r in o["res"]:
                    if r["panic"]:
                        sig = dict(part="matrix", fmt=c["fmt"], value=(bytes(c["bytes"]).decode("utf8", "replace") if c["fmt"] == "text" else bytes(c["bytes"]).hex()),
                                   target=r["type"], why="panic", panic=r["panic"][:160])
                        verdicts.fail(sig, dict(bytes=c["bytes"], fmt=c["fmt"], target=r["type"]))
                if v["why"] != "panic":
                    sig = dict(part="matrix", fmt=c["fmt"], value=(bytes(c["bytes"]).decode("utf8", "replace") if c["fmt"] == "text" else bytes(c["bytes"]).hex()),
                               target=v["target"], why=v["why"], cells=v["nbad"])
                    verdicts.fail(sig, dict(bytes=c["bytes"], fmt=c["fmt"], target=v["target"]))
        for c, v in zip(sdocs, svs):
            if v["why"] != "ok":
                sig = dict(part="decoder-stream", fmt=c["fmt"], n=len(c["forest"]), why=v["why"])
                verdicts.fail(sig, dict(bytes=c["bytes"], fmt=c["fmt"], stream=True))
        rc = verdicts.report()
        core.write_evidence(PROP, tier, "model_checking", dict(
            states=len(docs) + len(sdocs), transitions=ncells, traces_validated_against_impl=ncells + len(sdocs),
            evaluations=ncells + len(sdocs), distinct_nontrivial=ncells,
            rule="matrix = %d Ion documents (%d values x text/binary) x %d Go target types, every cell executed and judged; + %d "
                 "streams of 0..4 values for the Decoder automaton" % (len(docs), len(docs) // 2, len(TARGETS), len(sdocs)),
            exhaustive=True, targets=TARGETS, known_findings=verdicts.known, gen_wall_s=round(rgen["wall"], 1),
            samples=[dict(fmt=c["fmt"], value=(bytes(c["bytes"]).decode("utf8", "replace") if c["fmt"] == "text" else bytes(c["bytes"]).hex()))
                     for c in docs[::max(1, len(docs) // 6)][:6]]),
            time.time() - t0, len(verdicts.violations),
            assumptions=["an error is always an acceptable outcome of Unmarshal (the statement: fill faithfully or return an error)",
                         "struct targets are judged field by field in C16; here they are checked for panics only"])
    return rc


def replay(path):
    with open(path) as f:
        rp = json.load(f)
    c = rp["case"]
    with core.Workdir("c17r") as wd:
        d = wd.sub("r")
        core.write_ndjson(os.path.join(d, "in.ndjson"), [dict(bytes=c["bytes"], types=[] if c.get("stream") else [c["target"]])])
        core.run_harness("unmarshal", os.path.join(d, "in.ndjson"), os.path.join(d, "obs.ndjson"))
        o = core.read_ndjson(os.path.join(d, "obs.ndjson"))[0]
    print("replay observation:", json.dumps(o)[:400])
    if any(r["panic"] for r in o["res"]) or o["decpanic"]:
        print("VIOLATION property=%s replay=%s" % (PROP, path))
        return 1
    print("replay: no panic; re-run the check for the faithfulness verdict")
    return 0
