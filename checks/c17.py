"""C17 — Unmarshal either fills the target faithfully or returns an error.

GEN  : Gen_Unmarshal — Ion values of every type (every typed null, symbols with and without text, integers at
       every Go width boundary +-1 and beyond 64 bits, floats beyond float32, lobs of several lengths, lists of
       mixed types, structs with unknown / duplicate / case-differing / textless field names, annotated values)
       in text and binary; streams of 0..4 values.
EXEC : the full matrix: every value x every Go target type (all integer widths, floats, string, []byte,
       arrays, slices, maps, pointers, interface{}, Timestamp, *Decimal, time.Time, big.Int, SymbolToken,
       annotation wrappers, structs) through Unmarshal under recover; Decoder.Decode until ErrNoInput + 2 calls;
       every proper prefix of the container-valued documents into struct, map and interface targets.
JUDGE: Judge_Unmarshal / Judge_DecStream (TLC): never a panic; an error is always acceptable; a stored value
       must represent the Ion value (spec/Marshal.tla Faithful: exact integers and float bits, text, bytes,
       element-wise sequences, map entries) - never wrapped, truncated or zeroed; for a prefix: if a Reader that
       reads the first value completely meets an error, Unmarshal returns an error too.
"""
import json
import os
import time

from vlib import core

PROP = "C17"
TARGETS = ["bool", "int", "int8", "int16", "int32", "int64", "uint", "uint8", "uint16", "uint32", "uint64", "float32", "float64", "string",
           "bytes", "array4", "ints", "strings", "arr3", "map", "mapiface", "iface", "ifaces", "ptrint", "ptrptr", "timestamp", "decimalptr",
           "time", "bigint", "bigintptr", "scalars", "inner", "embed", "annint", "annlist", "token", "case"]


def run(tier):
    t0 = time.time()
    verdicts = core.Verdicts(PROP)
    with core.Workdir("c17") as wd:
        d = wd.sub("gen")
        rgen = core.tlc_eval(d, "Gen_Unmarshal", dict(OutFile="docs.ndjson", StreamOutFile="streams.ndjson"), heap="4g")
        docs = core.read_ndjson(os.path.join(d, "docs.ndjson"))
        sdocs = core.read_ndjson(os.path.join(d, "streams.ndjson"))
        # a symbol whose ID lies in the range of an import the catalog lacks: it has an ID and no text
        for sid in (10, 12, 14):
            t = '$ion_symbol_table::{imports:[{name:"missing_table",version:1,max_id:5}]} $%d' % sid
            docs.append(dict(v=dict(t="symbol", null=False, ann=[], v=dict(k="sid", sid=sid, text=[])), fmt="text", bytes=list(t.encode())))

        def job_matrix(k, shards):
            dk = wd.sub("mx%d" % k)
            core.write_ndjson(os.path.join(dk, "cases.ndjson"), shards[k])
            core.write_ndjson(os.path.join(dk, "in.ndjson"), [dict(bytes=c["bytes"], types=TARGETS) for c in shards[k]])
            core.run_harness("unmarshal", os.path.join(dk, "in.ndjson"), os.path.join(dk, "obs.ndjson"))
            core.tlc_eval(dk, "Judge_Unmarshal", dict(ObsFile="obs.ndjson", CaseFile="cases.ndjson", VerdictFile="verdict.ndjson"), heap="4g")
            vs = core.read_ndjson(os.path.join(dk, "verdict.ndjson"))
            obs = core.read_ndjson(os.path.join(dk, "obs.ndjson"))
            return list(zip(shards[k], vs, obs))
        nsh = 12
        shards = core.shard(docs, nsh)
        res = [x for xs in core.parallel([lambda k=k: job_matrix(k, shards) for k in range(nsh)]) for x in xs]
        ds = wd.sub("stream")
        core.write_ndjson(os.path.join(ds, "cases.ndjson"), sdocs)
        core.write_ndjson(os.path.join(ds, "in.ndjson"), [dict(bytes=c["bytes"], types=[]) for c in sdocs])
        core.run_harness("unmarshal", os.path.join(ds, "in.ndjson"), os.path.join(ds, "obs.ndjson"))
        core.tlc_eval(ds, "Judge_DecStream", dict(ObsFile="obs.ndjson", CaseFile="cases.ndjson", VerdictFile="verdict.ndjson"))
        svs = core.read_ndjson(os.path.join(ds, "verdict.ndjson"))
        # ---- documents cut short inside their first value: when a Reader that reads the first value completely meets an
        # error, Unmarshal of the same bytes must return one too (it must not hand back a partly filled target as success)
        TR_TARGETS = ["scalars", "tags", "inner", "case", "mapiface", "iface", "ifaces", "map", "ints"]
        conts = [c for c in docs if c["v"]["t"] in ("struct", "list", "sexp") and not c["v"]["null"] and len(c["bytes"]) <= 120]
        step = 1 if tier != "quick" else 2
        trunc = []
        for c in conts[::step]:
            for k in range(1, len(c["bytes"])):
                trunc.append(dict(bytes=c["bytes"][:k], types=TR_TARGETS, trunc=True, fmt=c["fmt"]))
        tshards = core.shard(trunc, 8)

        def job_trunc(k):
            dk = wd.sub("tr%d" % k)
            core.write_ndjson(os.path.join(dk, "in.ndjson"), tshards[k])
            core.run_harness("unmarshal", os.path.join(dk, "in.ndjson"), os.path.join(dk, "obs.ndjson"))
            return list(zip(tshards[k], core.read_ndjson(os.path.join(dk, "obs.ndjson"))))
        tres = [x for xs in core.parallel([lambda k=k: job_trunc(k) for k in range(8) if tshards[k]]) for x in xs]
        seen_tr = set()
        for c, o in tres:
            if not o["firsterr"] or o["firsterr"].startswith("harness"):
                continue
            for r in o["res"]:
                if r["panic"] or r["err"] == "":
                    key = (c["fmt"], r["type"], bool(r["panic"]))
                    if key in seen_tr:
                        continue
                    seen_tr.add(key)
                    sig = dict(part="truncated", fmt=c["fmt"], target=r["type"], why="panic" if r["panic"] else
                               "a Reader meets an error inside the first value, Unmarshal of the same bytes returns nil",
                               doc=(bytes(c["bytes"]).decode("utf8", "replace") if c["fmt"] == "text" else bytes(c["bytes"]).hex())[:120],
                               reader_error=o["firsterr"][:120])
                    verdicts.fail(sig, dict(bytes=c["bytes"], fmt=c["fmt"], target=r["type"], trunc=True))
        ncells = 0
        seen_stale = set()
        for c, v, o in res:
            for r in o["res"]:
                if r.get("stale") and r["type"] not in seen_stale:
                    seen_stale.add(r["type"])
                    verdicts.fail(dict(part="prefilled-wrapper", target=r["type"], why=r["stale"], fmt=c["fmt"],
                                       value=(bytes(c["bytes"]).decode("utf8", "replace") if c["fmt"] == "text" else bytes(c["bytes"]).hex())[:120]),
                                  dict(bytes=c["bytes"], fmt=c["fmt"], target=r["type"]))
        for c, v, o in res:
            ncells += len(o["res"])
            if v["why"] != "ok":
                # one signature per failing cell
                for r in o["res"]:
                    if r["panic"]:
                        sig = dict(part="matrix", fmt=c["fmt"], value=(bytes(c["bytes"]).decode("utf8", "replace") if c["fmt"] == "text" else bytes(c["bytes"]).hex()),
                                   target=r["type"], why="panic", panic=r["panic"][:160])
                        verdicts.fail(sig, dict(bytes=c["bytes"], fmt=c["fmt"], target=r["type"]))
                if v["why"] != "panic":
                    sig = dict(part="matrix", fmt=c["fmt"], value=(bytes(c["bytes"]).decode("utf8", "replace") if c["fmt"] == "text" else bytes(c["bytes"]).hex()),
                               target=v["target"], why=v["why"], cells=v["nbad"])
                    verdicts.fail(sig, dict(bytes=c["bytes"], fmt=c["fmt"], target=v["target"]))
        for c, v in zip(sdocs, svs):
            if v["why"] != "ok":
                sig = dict(part="decoder-stream", fmt=c["fmt"], n=len(c["forest"]), why=v["why"])
                verdicts.fail(sig, dict(bytes=c["bytes"], fmt=c["fmt"], stream=True))
        rc = verdicts.report()
        core.write_evidence(PROP, tier, "model_checking", dict(
            states=len(docs) + len(sdocs), transitions=ncells, traces_validated_against_impl=ncells + len(sdocs),
            evaluations=ncells + len(sdocs), distinct_nontrivial=ncells,
            rule="matrix = %d Ion documents (%d values x text/binary) x %d Go target types, every cell executed and judged; + %d "
                 "streams of 0..4 values for the Decoder automaton" % (len(docs), len(docs) // 2, len(TARGETS), len(sdocs)),
            exhaustive=True, targets=TARGETS, truncated_documents=len(trunc), known_findings=verdicts.known, gen_wall_s=round(rgen["wall"], 1),
            samples=[dict(fmt=c["fmt"], value=(bytes(c["bytes"]).decode("utf8", "replace") if c["fmt"] == "text" else bytes(c["bytes"]).hex()))
                     for c in docs[::max(1, len(docs) // 6)][:6]]),
            time.time() - t0, len(verdicts.violations),
            assumptions=["an error is always an acceptable outcome of Unmarshal (the statement: fill faithfully or return an error)",
                         "struct targets are judged field by field in C16; here they are checked for panics only"])
    return rc


def replay(path):
    with open(path) as f:
        rp = json.load(f)
    c = rp["case"]
    with core.Workdir("c17r") as wd:
        d = wd.sub("r")
        core.write_ndjson(os.path.join(d, "in.ndjson"), [dict(bytes=c["bytes"], types=[] if c.get("stream") else [c["target"]], trunc=bool(c.get("trunc")))])
        core.run_harness("unmarshal", os.path.join(d, "in.ndjson"), os.path.join(d, "obs.ndjson"))
        o = core.read_ndjson(os.path.join(d, "obs.ndjson"))[0]
    print("replay observation:", json.dumps(o)[:400])
    if any(r["panic"] for r in o["res"]) or o["decpanic"] or (c.get("trunc") and o["firsterr"] and any(r["err"] == "" for r in o["res"])):
        print("VIOLATION property=%s replay=%s" % (PROP, path))
        return 1
    print("replay: no panic; re-run the check for the faithfulness verdict")
    return 0
