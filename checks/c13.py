"""C13 — numbers are never silently truncated, wrapped or rounded.

GEN  : spec/Gen_Numbers.tla — integers +-(2^k + d), d in -2..2, around every 7- and 8-bit width step up to
       2^80, 16-bit values, random magnitudes, each rendered in binary (minimal, zero-padded, L=14) and
       text (decimal, hex, binary); the accessor x type x nullness matrix; float bit patterns of every
       float32-boundary class; payload lengths 127/128/16383/16384; symbol tables crossing the first VarUInt step (the second, 16,384, is crossed with padding imports in C03).
EXEC : (a) every Reader accessor on the first value of each document; (b) forests through the three real
       writers and back through the Reader.
JUDGE: (a) spec/Numbers.tla via Judge_Acc (IntSize never too small, IntValue/Int64Value value-or-error,
       BigIntValue exact, nil for own typed null, error for other types); (b) Judge_RT: read-back and the
       specification's decoding of the emitted bytes are Equiv to the forest, bit for bit (a float stored
       in 32 bits that is not lossless, or a wrapped length / symbol ID, changes the decoded value);
       (c) text decimals with exponents at and beyond the int32 range: exact or refused, never wrapped.
"""
import json
import os
import time

from vlib import core, rt

PROP = "C13"


def judge_acc(wd, cases, nshards=14, tag="acc"):
    nshards = max(1, min(nshards, len(cases) // 200 + 1))
    bounds = [(len(cases) * k // nshards, len(cases) * (k + 1) // nshards) for k in range(nshards)]

    def job(k):
        lo, hi = bounds[k]
        d = wd.sub("%s%d" % (tag, k))
        core.write_ndjson(os.path.join(d, "cases.ndjson"), cases[lo:hi])
        core.run_harness("acc", os.path.join(d, "cases.ndjson"), os.path.join(d, "obs.ndjson"))
        core.tlc_eval(d, "Judge_Acc", dict(ObsFile="obs.ndjson", CaseFile="cases.ndjson", VerdictFile="verdict.ndjson"))
        vs = core.read_ndjson(os.path.join(d, "verdict.ndjson"))
        obs = core.read_ndjson(os.path.join(d, "obs.ndjson"))
        if len(vs) != hi - lo:
            raise core.MachineryError("Judge_Acc returned %d verdicts for %d cases" % (len(vs), hi - lo))
        for v, o in zip(vs, obs):
            v["gidx"] = lo + v["idx"] - 1
            v["obs"] = o
        return vs
    return [v for vs in core.parallel([lambda k=k: job(k) for k in range(nshards)]) for v in vs]


def run(tier):
    t0 = time.time()
    nstreams = 400 if tier == "quick" else 4000
    verdicts = core.Verdicts(PROP)
    with core.Workdir("c13") as wd:
        d = wd.sub("gen")
        core.write_ndjson(os.path.join(d, "streams.ndjson"), core.streams(nstreams, 40, core.seed(), 13))
        rgen = core.tlc_eval(d, "Gen_Numbers", dict(StreamFile="streams.ndjson", OutFile="cases.ndjson",
                                                     ForestFile="forests.ndjson", All16=(tier != "quick"),
                                                     BigTable=False), heap="8g")   # a table of 16,384+ real symbols x 7 writer modes is beyond the TLA+ decoders in a judge run; that ID boundary is crossed with padding imports in C03
        cases = core.read_ndjson(os.path.join(d, "cases.ndjson"))
        forests = core.read_ndjson(os.path.join(d, "forests.ndjson"))
        # (a) accessors
        vs = judge_acc(wd, cases)
        bad = [v for v in vs if not v["ok"]]
        if bad:
            again = {v["gidx"]: v for v in judge_acc(wd, [cases[v["gidx"]] for v in bad], tag="cacc")}
            for k, v in enumerate(bad):
                a = again.get(k)
                if a is None or a["ok"]:
                    raise core.MachineryError("accessor failure on case %d did not reproduce" % v["gidx"])
                c = cases[v["gidx"]]
                msgs = [x.get("msg", "")[:120] for x in a["obs"]["accs"] if x["res"] in ("panic",)]
                sig = dict(part="accessor", kind=c["kind"], type=c["v"]["t"], null=c["v"]["null"], why=a["why"],
                           err=a["obs"]["err"][:160], panics=msgs)
                verdicts.fail(sig, dict(part="acc", case=c, obs=a["obs"], verdict=dict(ok=a["ok"], why=a["why"])))
        # (b) write-then-read of floats, long payloads, many symbols
        rvs, robs = rt.exec_and_judge(wd, forests, nshards=12)
        rbad = [(v, o) for v, o in zip(rvs, robs) if v["c01"] not in ("ok", "refused") or v["c04"] not in ("ok", "refused")]
        if rbad:
            idxs = sorted({v["gidx"] for v, _ in rbad})
            av, ao = rt.exec_and_judge(wd, [forests[i] for i in idxs], tag="confirm")
            again = {(idxs[v["gidx"]], v["mode"]): (v, o) for v, o in zip(av, ao)}
            for v, o in rbad:
                a = again.get((v["gidx"], v["mode"]))
                if a is None or (a[0]["c01"] in ("ok", "refused") and a[0]["c04"] in ("ok", "refused")):
                    raise core.MachineryError("round-trip failure of forest %d did not reproduce" % v["gidx"])
                f = forests[v["gidx"]]
                sig = dict(part="roundtrip", kind=f["kind"], mode=v["mode"], c01=a[0]["c01"], c04=a[0]["c04"],
                           diff=a[0].get("diff"), rerr=a[1].get("rerr", "")[:160])
                small = f["forest"] if len(json.dumps(f["forest"])) < 20000 else "(large forest of kind %s)" % f["kind"]
                verdicts.fail(sig, dict(part="rt", kind=f["kind"], forest=small, mode=v["mode"], verdict=a[0]))
        # ---- exponents at and beyond the int32 range in text: a decimal that cannot be held exactly must be refused, one
        # that can must come back with exactly that exponent (never a wrapped one)
        lits = [("7d2147483647", 2147483647), ("7d-2147483647", -2147483647), ("123d1000000000", 1000000000), ("7d2147483648", None),
                ("7d4294967297", None), ("7d-2147483649", None), ("7d-4294967297", None), ("15d99999999999", None),
                ("1.5d4294967296", None), ("-7d18446744073709551617", None), ("7d-18446744073709551615", None)]
        de = wd.sub("exp")
        core.write_ndjson(os.path.join(de, "in.ndjson"), [dict(bytes=list(t.encode()), mode="text", cat=[]) for t, _ in lits])
        core.run_harness("read", os.path.join(de, "in.ndjson"), os.path.join(de, "obs.ndjson"))
        for (t, want), o in zip(lits, core.read_ndjson(os.path.join(de, "obs.ndjson"))):
            err = o["rerr"] or o["errAfter"] or o["rpanic"]
            got = o["back"][0]["v"]["exp"] if (not err and o["back"] and o["back"][0]["t"] == "decimal") else None
            why = None
            if o["rpanic"]:
                why = "panic"
            elif want is None and not err:
                why = "a decimal whose exponent does not fit was read as another number (exponent %s)" % got
            elif want is not None and (err or got != want):
                why = "a representable exponent was not read back exactly (%s)" % (err or got)
            if why:
                verdicts.fail(dict(part="text-exponent", literal=t, why=why), dict(part="text-exponent", literal=t))
        # ---- symbol IDs beyond 32 bits in binary: they name no symbol of any table here, so reading them is an error,
        # never the symbol some narrower integer would name
        bvm = [0xe0, 0x01, 0x00, 0xea]
        sids = [("750100000004", "symbol value 2^32+4 (4 = name)"), ("75010000000a", "symbol value 2^32+10"),
                ("780000000100000004", "symbol value 2^32+4, padded"), ("78ffffffffffffff04", "symbol value near 2^64")]
        ds = wd.sub("sid")
        core.write_ndjson(os.path.join(ds, "in.ndjson"), [dict(bytes=bvm + list(bytes.fromhex(h)), mode="binary", cat=[]) for h, _ in sids])
        core.run_harness("read", os.path.join(ds, "in.ndjson"), os.path.join(ds, "obs.ndjson"))
        for (h, what), o in zip(sids, core.read_ndjson(os.path.join(ds, "obs.ndjson"))):
            err = o["rerr"] or o["errAfter"]
            syms = [v for v in o["back"] if v["t"] == "symbol" and v["v"].get("k") == "text"]
            if o["rpanic"] or (not err and syms):
                verdicts.fail(dict(part="wide-symbol-id", doc=h, why="panic" if o["rpanic"] else
                                   "a symbol ID beyond 32 bits was read as the symbol a narrower ID names", what=what),
                              dict(part="text-exponent", literal=h))
        rc = verdicts.report()
        kinds = {}
        for c in cases:
            kinds[c["kind"]] = kinds.get(c["kind"], 0) + 1
        for f in forests:
            kinds[f["kind"]] = kinds.get(f["kind"], 0) + 1
        core.write_evidence(PROP, tier, "model_checking", dict(
            states=len(cases) + len(forests), transitions=11 * len(cases) + len(rvs),
            traces_validated_against_impl=len(cases) + len(rvs),
            evaluations=11 * len(cases) + len(rvs), distinct_nontrivial=len({bytes(c["bytes"]) for c in cases}),
            rule="accessor cases = boundary/random/16-bit integers x 6 renderings + accessor matrix (11 accessor calls "
                 "each); round-trip forests = float width classes, long payloads, large symbol tables x 3 writer modes; "
                 "distinct = distinct documents", case_kinds=kinds, exhaustive=(tier != "quick"),
            rejected=len(bad) + len(rbad), known_findings=verdicts.known, gen_wall_s=round(rgen["wall"], 1),
            samples=[dict(kind=c["kind"], bytes=bytes(c["bytes"]).hex()[:80], v=c["v"]) for c in cases[:3] + cases[-2:]]),
            time.time() - t0, len(verdicts.violations),
            assumptions=["IntSize is only required to be large enough (the statement says 'never too small')"])
    return rc


def replay(path):
    with open(path) as f:
        rp = json.load(f)
    case = rp["case"]
    with core.Workdir("c13r") as wd:
        if case["part"] == "text-exponent":
            print("replay: re-run ./check C13 (the literal %s is part of every run)" % case["literal"])
            return 2
        if case["part"] == "acc":
            vs = judge_acc(wd, [case["case"]], nshards=1)
            bad = not vs[0]["ok"]
            info = vs[0]["why"]
        else:
            if isinstance(case["forest"], str):
                print("replay: forest too large to store; re-run the check")
                return 2
            vs, _ = rt.exec_and_judge(wd, [dict(kind=case["kind"], forest=case["forest"])], nshards=1)
            b = [v for v in vs if v["mode"] == case["mode"] and (v["c01"] not in ("ok", "refused") or v["c04"] not in ("ok", "refused"))]
            bad, info = bool(b), json.dumps(b[:1])
    if bad:
        print("VIOLATION property=%s replay=%s" % (PROP, path))
        print("  " + info)
        return 1
    print("replay: holds")
    return 0
