"""C15 — timestamps keep instant, offset, precision and fraction digits in both formats.

GEN  : Gen_Timestamp — the boundary grid (years 1..9999 incl. offsets that carry the UTC fields to year 0 or
       10000, every month start/end of leap and common years, day-boundary times, offsets to +-23:59, UTC /
       unknown / local, six precisions, fraction patterns with leading and trailing zeros), stream-sampled;
       each spelled by the specification's printer; invalid literals; fractions finer than nanoseconds.
EXEC : (a) construct, String(), ParseTimestamp(String()), ParseTimestamp(spec spelling);
       (b) forests of timestamps through the three real writers and back; (c) through the specification's
       binary encoder (representation choices) into the real Reader; (d) invalid literals and long fractions
       through ParseTimestamp and the text Reader.
JUDGE: Judge_Timestamp / Judge_RT (TLC); rounding of long fractions is checked against exact digit
       arithmetic (nearest nanosecond, a tie may go either way).
"""
import json
import os
import time

from vlib import core, rt

PROP = "C15"


def judge_ts(wd, cases, nshards=12, tag="ts"):
    nshards = max(1, min(nshards, len(cases) // 300 + 1))
    bounds = [(len(cases) * k // nshards, len(cases) * (k + 1) // nshards) for k in range(nshards)]

    def job(k):
        lo, hi = bounds[k]
        d = wd.sub("%s%d" % (tag, k))
        core.write_ndjson(os.path.join(d, "cases.ndjson"), cases[lo:hi])
        core.run_harness("ts", os.path.join(d, "cases.ndjson"), os.path.join(d, "obs.ndjson"))
        core.tlc_eval(d, "Judge_Timestamp", dict(ObsFile="obs.ndjson", CaseFile="cases.ndjson", VerdictFile="verdict.ndjson"))
        vs = core.read_ndjson(os.path.join(d, "verdict.ndjson"))
        obs = core.read_ndjson(os.path.join(d, "obs.ndjson"))
        if len(vs) != hi - lo:
            raise core.MachineryError("Judge_Timestamp returned %d verdicts for %d cases" % (len(vs), hi - lo))
        for v, o in zip(vs, obs):
            v["gidx"] = lo + v["idx"] - 1
            v["obs"] = o
        return vs
    return [v for vs in core.parallel([lambda k=k: job(k) for k in range(nshards)]) for v in vs]


def show_ts(t):
    return "%04d-%02d-%02dT%02d:%02d:%02d.%s utc, off=%s%d prec=%d" % (t["y"], t["mo"], t["d"], t["h"], t["mi"], t["s"],
                                                                     "".join(map(str, t["frac"])), "" if t["known"] else "?", t["off"], t["prec"])


def text_cases(wd, texts, tag):
    d = wd.sub(tag)
    core.write_ndjson(os.path.join(d, "in.ndjson"), [dict(text=t) for t in texts])
    core.run_harness("tstext", os.path.join(d, "in.ndjson"), os.path.join(d, "obs.ndjson"))
    return core.read_ndjson(os.path.join(d, "obs.ndjson"))


def rounding_ok(lf, got):
    """got: TsV of 2001-02-03T04:05:SS.fffffffffZ; exact: seconds lf.s and digits lf.digits."""
    n = len(lf["digits"])
    exact = lf["s"] * 10 ** n + int("".join(map(str, lf["digits"])))
    if got["prec"] < 5 or (got["y"], got["mo"], got["d"], got["h"], got["mi"]) != (2001, 2, 3, 4, 5):
        return False
    frac = int("".join(map(str, got["frac"])) or "0") * 10 ** (9 - len(got["frac"]))
    val = (got["s"] * 10 ** 9 + frac) * 10 ** (n - 9)
    return abs(val - exact) * 2 <= 10 ** (n - 9)


def run(tier):
    t0 = time.time()
    n = 2400 if tier == "quick" else 60000
    verdicts = core.Verdicts(PROP)
    with core.Workdir("c15") as wd:
        d = wd.sub("gen")
        core.write_ndjson(os.path.join(d, "streams.ndjson"), core.streams(n, 60, core.seed(), 15, hi=1 << 16))
        rgen = core.tlc_eval(d, "Gen_Timestamp", dict(StreamFile="streams.ndjson", OutFile="cases.ndjson", ForestFile="forests.ndjson",
                                                       InvalidFile="invalid.ndjson"), heap="6g")
        cases = core.read_ndjson(os.path.join(d, "cases.ndjson"))
        forests = core.read_ndjson(os.path.join(d, "forests.ndjson"))
        extra = core.read_ndjson(os.path.join(d, "invalid.ndjson"))[0]
        # (a) String / ParseTimestamp
        vs = judge_ts(wd, cases)
        spec_bad = [v for v in vs if v["why"].startswith("SPEC:")]
        if spec_bad:
            raise core.MachineryError("the specification's printer and decoder disagree on %d timestamps, e.g. %s" %
                                      (len(spec_bad), show_ts(cases[spec_bad[0]["gidx"]]["ts"])))
        bad = [v for v in vs if v["why"] != "ok"]
        if bad:
            again = judge_ts(wd, [cases[v["gidx"]] for v in bad], tag="confirm")
            for v, a in zip(bad, again):
                if a["why"] == "ok":
                    raise core.MachineryError("failure did not reproduce")
                c = cases[v["gidx"]]
                sig = dict(part="string-parse", ts=show_ts(c["ts"]), why=a["why"], text=bytes(a["obs"]["text"]).decode("latin1"),
                           spelling=bytes(c["spelling"]).decode(), msg=a["obs"]["msg"][:160], panic=a["obs"]["panic"][:160])
                verdicts.fail(sig, dict(part="ts", case=c, obs=a["obs"], why=a["why"]))
        # (b) the real writers and reader; (c) spec encodings into the real reader
        rvs, robs = rt.exec_and_judge(wd, forests, nshards=8)
        nbad_rt = 0
        for v, o in zip(rvs, robs):
            if v["c01"] not in ("ok", "refused") or v["c04"] not in ("ok", "refused"):
                nbad_rt += 1
                f = forests[v["gidx"]]
                sig = dict(part="write-read", mode=v["mode"], c01=v["c01"], c04=v["c04"], diff=v.get("diff"),
                           ts=[show_ts(x["v"]) for x in f["forest"]], rerr=o.get("rerr", "")[:160])
                verdicts.fail(sig, dict(part="rt", forest=f["forest"], mode=v["mode"], verdict=v))
        dg = wd.sub("genbin")
        core.write_ndjson(os.path.join(dg, "forests.ndjson"), forests)
        core.write_ndjson(os.path.join(dg, "streams.ndjson"), core.streams(64, 200, core.seed(), 151, hi=1 << 16))
        with open(os.path.join(dg, "EncTs.tla"), "w") as f:
            f.write('---- MODULE EncTs ----\nEXTENDS IonBinaryEnc, Json, TLC\nF == ndJsonDeserialize("forests.ndjson")\n'
                    'S == ndJsonDeserialize("streams.ndjson")\n'
                    'ASSUME ndJsonSerialize("enc.ndjson", [i \\in 1..Len(F) |-> [forest |-> F[i].forest, '
                    'bytes |-> EncodeStream(F[i].forest, S[(i % Len(S)) + 1].s)]])\n====\n')
        core.write_cfg(os.path.join(dg, "EncTs.cfg"), [])
        core.run_tlc(dg, "EncTs", "EncTs.cfg", heap="4g")
        enc = core.read_ndjson(os.path.join(dg, "enc.ndjson"))
        evs, eobs = rt.exec_and_judge(wd, enc, sub="read", tag="encread", nshards=8)
        if any(v["c04"] != "ok" for v in evs):
            raise core.MachineryError("spec encoder/decoder disagree on a timestamp encoding")
        for v, o in zip(evs, eobs):
            if v["c01"] != "ok":
                f = enc[v["gidx"]]
                sig = dict(part="binary-read", c01=v["c01"], ts=[show_ts(x["v"]) for x in f["forest"]], rerr=o.get("rerr", "")[:160],
                           bytes=bytes(f["bytes"]).hex()[:120])
                verdicts.fail(sig, dict(part="enc", forest=f["forest"], bytes=f["bytes"], verdict=v))
        # (d) invalid literals, long fractions
        for t, o in zip(extra["invalid"], text_cases(wd, extra["invalid"], "inv")):
            if o["panic"] or o["ok"] or o["rok"]:
                sig = dict(part="invalid-literal", text=bytes(t).decode(), accepted_by=("ParseTimestamp " if o["ok"] else "") + ("Reader" if o["rok"] else ""),
                           panic=o["panic"][:120])
                verdicts.fail(sig, dict(part="invalid", text=t, obs=o))
        for lf, o in zip(extra["longfracs"], text_cases(wd, [x["text"] for x in extra["longfracs"]], "lf")):
            probs = []
            if o["panic"]:
                probs.append("panic")
            if not o["ok"] or not rounding_ok(lf, o["ts"]):
                probs.append("ParseTimestamp: not the nearest nanosecond")
            if not o["rok"] or not rounding_ok(lf, o["rts"]):
                probs.append("Reader: not the nearest nanosecond")
            if probs:
                sig = dict(part="long-fraction", text=bytes(lf["text"]).decode(), problems=probs,
                           got=show_ts(o["ts"]) if o["ok"] else "rejected", reader=show_ts(o["rts"]) if o["rok"] else "rejected")
                verdicts.fail(sig, dict(part="longfrac", lf=lf, obs=o))
        # long fractions in binary: the real Reader on the specification's encoding
        dl = wd.sub("lfbin")
        core.write_ndjson(os.path.join(dl, "in.ndjson"), [dict(bytes=x["bin"], mode="binary") for x in extra["longfracs"]])
        core.run_harness("read", os.path.join(dl, "in.ndjson"), os.path.join(dl, "obs.ndjson"))
        for lf, o in zip(extra["longfracs"], core.read_ndjson(os.path.join(dl, "obs.ndjson"))):
            got = None
            if not o["rpanic"] and not o["rerr"] and len(o["back"]) == 1 and o["back"][0]["t"] == "timestamp" and not o["back"][0]["null"]:
                got = o["back"][0]["v"]
            if got is None or not rounding_ok(lf, got):
                sig = dict(part="long-fraction-binary", digits="".join(map(str, lf["digits"])), seconds=lf["s"],
                           got=show_ts(got) if got else "rejected: " + (o["rerr"] or o["rpanic"])[:120])
                verdicts.fail(sig, dict(part="longfracbin", lf=lf, obs=dict(rerr=o["rerr"], back=o["back"])))
        rc = verdicts.report()
        precs = {}
        for c in cases:
            precs[c["ts"]["prec"]] = precs.get(c["ts"]["prec"], 0) + 1
        core.write_evidence(PROP, tier, "model_checking", dict(
            states=len(cases) + len(forests), transitions=len(vs) + len(rvs) + len(evs),
            traces_validated_against_impl=len(vs) + len(rvs) + len(evs), evaluations=len(vs) + len(rvs) + len(evs),
            distinct_nontrivial=len({json.dumps(c["ts"], sort_keys=True) for c in cases}),
            rule="cases = %d stream-sampled points of the boundary grid, each: String/Parse, a spec spelling, three writer modes, "
                 "a spec binary encoding; + %d invalid literals + %d long fractions; distinct = distinct timestamps"
                 % (len(cases), len(extra["invalid"]), len(extra["longfracs"])),
            by_precision=precs, rejected=len(verdicts.violations) + sum(verdicts.known.values()), known_findings=verdicts.known,
            gen_wall_s=round(rgen["wall"], 1),
            samples=[dict(ts=show_ts(c["ts"]), spelling=bytes(c["spelling"]).decode()) for c in cases[:4]]),
            time.time() - t0, len(verdicts.violations),
            assumptions=["a tie in rounding a long fraction may go either way", "year range 0001-9999 applies to local time"])
    return rc


def replay(path):
    with open(path) as f:
        rp = json.load(f)
    c = rp["case"]
    with core.Workdir("c15r") as wd:
        if c["part"] == "ts":
            vs = judge_ts(wd, [c["case"]], nshards=1)
            bad, info = vs[0]["why"] != "ok", vs[0]["why"]
        elif c["part"] == "rt":
            vs, _ = rt.exec_and_judge(wd, [dict(kind="replay", forest=c["forest"])], nshards=1)
            b = [v for v in vs if v["mode"] == c["mode"] and (v["c01"] not in ("ok", "refused") or v["c04"] not in ("ok", "refused"))]
            bad, info = bool(b), json.dumps(b[:1])
        elif c["part"] == "enc":
            vs, _ = rt.exec_and_judge(wd, [dict(forest=c["forest"], bytes=c["bytes"])], nshards=1, sub="read")
            bad, info = vs[0]["c01"] != "ok", vs[0]["c01"]
        elif c["part"] == "invalid":
            o = text_cases(wd, [c["text"]], "r")[0]
            bad, info = bool(o["panic"] or o["ok"] or o["rok"]), json.dumps(o)[:200]
        elif c["part"] == "longfracbin":
            dl = wd.sub("lfbin")
            core.write_ndjson(os.path.join(dl, "in.ndjson"), [dict(bytes=c["lf"]["bin"], mode="binary")])
            core.run_harness("read", os.path.join(dl, "in.ndjson"), os.path.join(dl, "obs.ndjson"))
            o = core.read_ndjson(os.path.join(dl, "obs.ndjson"))[0]
            got = o["back"][0]["v"] if (not o["rerr"] and len(o["back"]) == 1 and o["back"][0]["t"] == "timestamp") else None
            bad, info = (got is None or not rounding_ok(c["lf"], got)), json.dumps(dict(rerr=o["rerr"], got=got))[:200]
        else:
            o = text_cases(wd, [c["lf"]["text"]], "r")[0]
            bad = bool(o["panic"]) or not o["ok"] or not rounding_ok(c["lf"], o["ts"]) or not o["rok"] or not rounding_ok(c["lf"], o["rts"])
            info = json.dumps(o)[:200]
    if bad:
        print("VIOLATION property=%s replay=%s" % (PROP, path))
        print("  " + info)
        return 1
    print("replay: holds")
    return 0
