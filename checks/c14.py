"""C14 — decimal arithmetic is exact and decimal text round-trips with precision.

MC   : the algebraic laws of spec/Decimal.tla (commutativity, a-b+b = a, antisymmetry of Cmp, shift
       inverse) are evaluated by TLC on every stream-driven operand pair (oracle sanity).
GEN  : Gen_Decimal — a grid of coefficients x exponents x sign incl. negative zeros (every relation between
       digit count, sign and scale that selects a String layout), all unary operations on the grid, ordered
       pairs of the grid for Add/Sub/Mul/Cmp/Equal (every pair in the thorough tier, a seed-offset stride
       in the quick tier), stream-driven operands of up to 24 bytes, single-operand exponent extremes.
EXEC : the real Decimal methods; String() and ParseDecimal(String()).
JUDGE: Judge_Decimal (TLC): results compared as exact rationals; String() parsed by the specification's text
       decoder must denote exactly the coefficient, exponent and negative-zero flag, as must ParseDecimal.
"""
import json
import os
import time

from vlib import core

PROP = "C14"


def judge(wd, cases, nshards=14, tag="dc"):
    nshards = max(1, min(nshards, len(cases) // 500 + 1))
    bounds = [(len(cases) * k // nshards, len(cases) * (k + 1) // nshards) for k in range(nshards)]

    def job(k):
        lo, hi = bounds[k]
        d = wd.sub("%s%d" % (tag, k))
        core.write_ndjson(os.path.join(d, "cases.ndjson"), cases[lo:hi])
        core.run_harness("decimal", os.path.join(d, "cases.ndjson"), os.path.join(d, "obs.ndjson"))
        core.tlc_eval(d, "Judge_Decimal", dict(ObsFile="obs.ndjson", CaseFile="cases.ndjson", VerdictFile="verdict.ndjson"))
        vs = core.read_ndjson(os.path.join(d, "verdict.ndjson"))
        obs = core.read_ndjson(os.path.join(d, "obs.ndjson"))
        if len(vs) != hi - lo:
            raise core.MachineryError("Judge_Decimal returned %d verdicts for %d cases" % (len(vs), hi - lo))
        for v, o in zip(vs, obs):
            v["gidx"] = lo + v["idx"] - 1
            v["obs"] = o
        return vs
    return [v for vs in core.parallel([lambda k=k: job(k) for k in range(nshards)]) for v in vs]


def dec(d):
    if d is None:
        return None
    return "%s%dd%d" % ("-" if d["neg"] else "", int.from_bytes(bytes(d["coef"]), "big"), d["exp"])


def run(tier):
    t0 = time.time()
    nstream, stride = (300, 12) if tier == "quick" else (6000, 1)
    verdicts = core.Verdicts(PROP)
    with core.Workdir("c14") as wd:
        d = wd.sub("gen")
        core.write_ndjson(os.path.join(d, "streams.ndjson"), core.streams(nstream, 120, core.seed(), 14))
        rgen = core.tlc_eval(d, "Gen_Decimal", dict(StreamFile="streams.ndjson", OutFile="cases.ndjson", PairStride=stride), heap="8g")
        cases = core.read_ndjson(os.path.join(d, "cases.ndjson"))
        rlaw = core.tlc_eval(d, "MC_Decimal", dict(StreamFile="streams.ndjson"))     # the oracle's own laws
        vs = judge(wd, cases)
        bad = [v for v in vs if v["why"] != "ok"]
        if bad:
            again = judge(wd, [cases[v["gidx"]] for v in bad], tag="confirm")
            for v, a in zip(bad, again):
                if a["why"] == "ok":
                    raise core.MachineryError("failure on case %d did not reproduce" % v["gidx"])
                c = cases[v["gidx"]]
                o = a["obs"]
                sig = dict(op=c["op"], a=dec(c["a"]), b=dec(c.get("b")), n=c.get("n"), why=a["why"],
                           got=(dec(o["d"]) if o["res"] == "val" else bytes(o["text"]).decode() if o["res"] == "text" else o["res"]),
                           msg=o.get("msg", "")[:120])
                verdicts.fail(sig, dict(case=c, verdict=dict(why=a["why"]), obs=o))
        rc = verdicts.report()
        ops = {}
        for c in cases:
            ops[c["op"]] = ops.get(c["op"], 0) + 1
        core.write_evidence(PROP, tier, "model_checking", dict(
            states=len(cases), transitions=len(cases), traces_validated_against_impl=len(cases), evaluations=len(cases),
            distinct_nontrivial=len({json.dumps(c, sort_keys=True) for c in cases if c["op"] in ("Add", "Sub", "Mul", "Cmp", "String", "Truncate")}),
            rule="cases = unary operations on a 13x11x2 grid (incl. negative zeros) and on exponent extremes + ordered grid pairs "
                 "(stride %d) x {Add,Sub,Mul,Cmp,Equal} + %d stream-driven big operand pairs; distinct by (op, operands)" % (stride, nstream),
            ops=ops, exhaustive=(stride == 1), oracle_laws=dict(operand_pairs=nstream, wall_s=round(rlaw["wall"], 1)), rejected=len(bad), known_findings=verdicts.known, gen_wall_s=round(rgen["wall"], 1),
            samples=[dict(op=c["op"], a=dec(c["a"]), b=dec(c.get("b")), n=c.get("n")) for c in cases[:2] + cases[-3:]]),
            time.time() - t0, len(verdicts.violations),
            assumptions=["operand pairs keep exponent differences within 80 (rescaling to a common exponent is exponential in the difference)",
                         "results whose exponent leaves int32 are not generated"])
    return rc


def replay(path):
    with open(path) as f:
        rp = json.load(f)
    with core.Workdir("c14r") as wd:
        vs = judge(wd, [rp["case"]["case"]], nshards=1)
    if vs[0]["why"] != "ok":
        print("VIOLATION property=%s replay=%s" % (PROP, path))
        print("  " + vs[0]["why"])
        return 1
    print("replay: holds")
    return 0
