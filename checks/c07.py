"""C07 — malformed input ends in an error, and the error is permanent.

GEN  : spec/Gen_Malformed.tla applies spec-invalidating edits (truncation at every byte offset, one byte
       replaced from a role alphabet, the hand-enumerated MalformedCatalogue) to valid documents: binary
       documents from the specification's encoder, text documents emitted by ion-go's writers that the
       specification's text decoder accepts, and literal tricky text.  Every edited document is
       CLASSIFIED by the specification's decoder; only "reject" verdicts (not the open/limit ones) are
       must-fail cases.
EXEC : full traversal (every container entered, every scalar read), then three more Next calls.
JUDGE: Err() must be non-nil after the traversal, every later Next false and Err() unchanged.
"""
import json
import os
import time

from vlib import core, rt
from checks import c03

PROP = "C07"
NUMBER_FAMILY = {"malformed number", "malformed timestamp", "malformed exponent", "malformed fraction",
                 "malformed hexadecimal integer", "malformed binary integer", "lone minus sign",
                 "number not followed by a stop character", "timestamp with time needs a valid offset"}


def base_documents(wd, nforests, seed):
    """valid documents: spec-encoded binary + ion-go text output accepted by the spec decoder."""
    cases, _ = c03.gen(wd, nforests, 1, seed)
    forests = [dict(forest=c["forest"]) for c in cases]
    bases = [dict(fmt="binary", bytes=c["bytes"]) for c in cases if len(c["bytes"]) <= 400]
    vs, obs = rt.exec_and_judge(wd, forests, tag="base")
    seen = set()
    for v, o in zip(vs, obs):
        if o["mode"] in ("text", "pretty") and v["c04"] == "ok" and 0 < len(o["out"]) <= 400:
            k = bytes(o["out"])
            if k not in seen:
                seen.add(k)
                bases.append(dict(fmt="text", bytes=o["out"]))
    for line in open(os.path.join(core.VERIF, "spec", "navdocs.txt")):
        line = line.rstrip("\n").replace("\\n", "\n")
        if line:
            bases.append(dict(fmt="text", bytes=list(line.encode())))
    return bases


def read_cases(wd, cases, tag):
    nsh = max(1, min(14, len(cases) // 500 + 1))
    shards = core.shard(cases, nsh)

    def job(k):
        d = wd.sub("%s%d" % (tag, k))
        core.write_ndjson(os.path.join(d, "in.ndjson"), [dict(bytes=c["bytes"], mode=c["fmt"]) for c in shards[k]])
        core.run_harness("read", os.path.join(d, "in.ndjson"), os.path.join(d, "obs.ndjson"))
        return core.read_ndjson(os.path.join(d, "obs.ndjson"))
    res = core.parallel([lambda k=k: job(k) for k in range(nsh)])
    out = [None] * len(cases)
    for k, obs in enumerate(res):
        for j, o in enumerate(obs):
            out[k + j * nsh] = o
    return out


def failure(o):
    if o["rpanic"]:
        return "panic"
    if o["errAfter"] == "":
        return "no error (Err() == nil after a full traversal)"
    if not o["sticky"]:
        return "error not permanent (a later Next returned true or Err() changed)"
    return None


def run(tier):
    t0 = time.time()
    nforests, maxtrunc, nmut = (150, 40, 12) if tier == "quick" else (1500, 120, 40)
    verdicts = core.Verdicts(PROP)
    with core.Workdir("c07") as wd:
        bases = base_documents(wd, nforests, core.seed())
        nsh = 12
        # classification is the expensive part: shard the bases over parallel TLC runs
        shards = core.shard(bases, nsh)

        def gen(k):
            dk = wd.sub("mal%d" % k)
            core.write_ndjson(os.path.join(dk, "bases.ndjson"), shards[k])
            core.write_ndjson(os.path.join(dk, "streams.ndjson"), core.streams(64, 400, core.seed(), 70 + k))
            core.tlc_eval(dk, "Gen_Malformed", dict(BaseFile="bases.ndjson", StreamFile="streams.ndjson",
                                                    OutFile="cases.ndjson", MaxTrunc=maxtrunc, Mutations=nmut), heap="4g")
            return core.read_ndjson(os.path.join(dk, "cases.ndjson"))
        allcases = [c for cs in core.parallel([lambda k=k: gen(k) for k in range(nsh)]) for c in cs]
        # the catalogue part is repeated in every shard: keep one copy
        seen, cases = set(), []
        for c in allcases:
            key = (c["fmt"], bytes(c["bytes"]))
            if key not in seen:
                seen.add(key)
                cases.append(c)
        def judged(c):
            if c["expect"] != "reject" or c["why"].startswith(("open:", "limit:")):
                return False
            # A number-family rejection of a randomly edited document often means "a valid number directly
            # followed by other characters" (1234Td6), which the statement does not list: such reasons are
            # must-reject only where the catalogue constructed the case on purpose.
            if c["fmt"] == "text" and c["edit"] != "catalogue" and c["why"] in NUMBER_FAMILY:
                return False
            # A Reader consumes a local symbol table itself and skips whatever it does not need (open content,
            # non-string symbols): a random edit inside a table need not be noticed.  Table malformations that
            # must be noticed are constructed in the catalogue.
            return not (c.get("inlst") and c["edit"] != "catalogue")
        neg = [c for c in cases if judged(c)]
        opened = sum(1 for c in cases if c["expect"] == "reject" and not judged(c))
        obs = read_cases(wd, neg, "rd")
        bad = [(c, o) for c, o in zip(neg, obs) if failure(o)]
        if bad:
            again = read_cases(wd, [c for c, _ in bad], "confirm")
            for (c, o), a in zip(bad, again):
                if not failure(a):
                    raise core.MachineryError("failure did not reproduce on %s" % bytes(c["bytes"]).hex()[:80])
                sig = dict(fmt=c["fmt"], edit=c["edit"], spec_reason=c["why"], symptom=failure(a),
                           doc=(bytes(c["bytes"]).decode("latin1")[:60] if c["fmt"] == "text" else bytes(c["bytes"]).hex()[:80]))
                verdicts.fail(sig, dict(fmt=c["fmt"], edit=c["edit"], bytes=c["bytes"], why=c["why"],
                                        observed=dict(errAfter=a["errAfter"], sticky=a["sticky"], rerr=a["rerr"], rpanic=a["rpanic"])))
        rc = verdicts.report()
        kinds = {}
        for c in neg:
            kinds[c["fmt"] + "/" + c["edit"]] = kinds.get(c["fmt"] + "/" + c["edit"], 0) + 1
        reasons = {}
        for c in neg:
            reasons[c["why"]] = reasons.get(c["why"], 0) + 1
        core.write_evidence(PROP, tier, "model_checking", dict(
            states=len(cases), transitions=len(neg), traces_validated_against_impl=len(neg),
            evaluations=len(neg), distinct_nontrivial=len(reasons),
            rule="cases = edits of %d valid base documents (truncation at up to %d offsets, %d byte substitutions each) + "
                 "MalformedCatalogue, classified by the TLA+ decoders; judged = those the decoder rejects for a reason that "
                 "is not open/limit; distinct_nontrivial = distinct rejection reasons exercised" % (len(bases), maxtrunc, nmut),
            case_kinds=kinds, classified_accept=sum(1 for c in cases if c["expect"] == "accept"), open_or_limit=opened,
            rejected=len(bad), known_findings=verdicts.known, reasons=reasons,
            samples=[dict(fmt=c["fmt"], edit=c["edit"], why=c["why"],
                          doc=(bytes(c["bytes"]).decode("latin1")[:80] if c["fmt"] == "text" else bytes(c["bytes"]).hex()[:80]))
                     for c in neg[:3] + neg[-3:]]),
            time.time() - t0, len(verdicts.violations),
            assumptions=["the TLA+ decoders' rejections (other than open:/limit:) are genuine violations of Ion 1.0"])
    return rc


def replay(path):
    with open(path) as f:
        rp = json.load(f)
    c = rp["case"]
    with core.Workdir("c07r") as wd:
        o = read_cases(wd, [dict(fmt=c["fmt"], bytes=c["bytes"])], "r")[0]
    if failure(o):
        print("VIOLATION property=%s replay=%s" % (PROP, path))
        print("  " + failure(o))
        return 1
    print("replay: holds (%s)" % o["errAfter"][:100])
    return 0
