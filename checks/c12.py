"""C12 — any Writer call sequence ends in a correct stream or an error.

MC   : MC_WriterProto (content-hiding VIEW, full alphabet) proves Sticky / ErrSet / FinishOk /
       AppendOnly on the specification.
GEN  : every call sequence up to length N over the reduced 14-call alphabet (history in state,
       tlc -dump), plus tlc -simulate programs over the full alphabet, plus every call of the full
       alphabet as the first possibly-refused call in each of ten writer contexts, followed by a legal
       continuation.
EXEC : each program is replayed on the four real writer configurations; one event per call.
JUDGE: Trace_WriterProto validates every recorded event (result, IsInStruct, and at every
       successful Finish that all bytes emitted so far decode — under the TLA+ decoders — to
       exactly the values of the calls that succeeded; same calls twice => same bytes).
"""
import json
import os
import time

from vlib import core, wproto

PROP = "C12"


# every call of the full alphabet as the FIRST possibly-refused call in every writer context, followed by calls that are
# legal had it succeeded: a call that fails without setting the sticky error lets the continuation through
CONTEXTS = [([], [3, 14]), ([8], [3, 9, 14]), ([12], [3, 13, 14]), ([10], [1, 3, 11, 14]), ([10, 1], [1, 3, 11, 14]),
            ([10, 1, 3], [1, 3, 11, 14]), ([2], [3, 14]), ([8, 3], [3, 9, 14]), ([3, 14], [3, 14]), ([10, 1, 8], [3, 9, 11, 14])]


def context_programs(nalpha):
    # the continuation once as it is and once led by a symbol written from a string and from a token (the calls that
    # resolve text: a writer must not let them overwrite the error it holds)
    return [tuple(pre + [c] + lead + post) for pre, post in CONTEXTS for c in range(1, nalpha + 1) for lead in ([], [24, 4])]


def run(tier):
    t0 = time.time()
    maxlen = 4 if tier == "quick" else 5
    nsim, simdepth = (150, 30) if tier == "quick" else (1500, 50)
    verdicts = core.Verdicts(PROP)
    with core.Workdir("c12") as wd:
        alphabet = wproto.export_alphabet(wd)
        # MC of the protocol properties
        dmc = wd.sub("mc")
        wproto.mc_cfg(os.path.join(dmc, "mc.cfg"), "binlst", tier)
        pmc = core.start_tlc(dmc, "MC_WriterProto", "mc.cfg", workers=4, heap="6g")
        cases, states, trans = [], 0, 0
        for mode in wproto.MODES:
            progs, r = wproto.gen_programs(wd, mode, maxlen)
            states += r["distinct"]
            trans += r["generated"]
            cases += wproto.make_cases(alphabet, mode, progs)
            sp, r2 = wproto.simulate_programs(wd, mode, simdepth, nsim, core.seed())
            cases += wproto.make_cases(alphabet, mode, sp, prefix="sim/")
            cases += wproto.make_cases(alphabet, mode, context_programs(len(alphabet)), prefix="ctx/")
        rmc = core.finish_tlc(pmc, dmc, "MC_WriterProto(mc)")
        states += rmc["distinct"]
        trans += rmc["generated"]
        failed, nevents, ntraces = wproto.validate_traces(wd, cases)
        by_id = {c["id"]: c for c in cases}
        # CONFIRM: the failing programs again, fresh harness process, judged again
        again = {}
        if failed:
            fcases = [by_id[f["id"]] for f in failed]
            ag, _, _ = wproto.validate_traces(wd, fcases, tag="confirm")
            again = {f["id"]: f for f in ag}
        for f in failed:
            case = by_id[f["id"]]
            if f["id"] not in again:
                raise core.MachineryError("rejection of %s did not reproduce" % f["id"])
            a = again[f["id"]]
            sig = dict(mode=case["mode"], calls=wproto.describe(case), why=a["why"], at_call=a["call"])
            verdicts.fail(sig, dict(case=case, verdict=a))
        rc = verdicts.report()
        nontrivial = sum(1 for c in cases if any(x["op"] in ("Begin",) for x in c["prog"])
                         and any(x["op"] == "Finish" for x in c["prog"]))
        core.write_evidence(PROP, tier, "model_checking", dict(
            states=states, transitions=trans, traces_validated_against_impl=ntraces,
            events_validated=nevents, programs=len(cases), distinct_nontrivial=nontrivial,
            rule="programs = leaves of the history tree of MC_WriterProto (all call sequences of length %d "
                 "over the reduced alphabet, error state absorbing) x 4 writer configurations, plus tlc "
                 "-simulate programs of depth %d over the full 34-call alphabet; non-trivial = opens a "
                 "container and calls Finish" % (maxlen, simdepth),
            exhaustive=True, rejected=len(failed), known_findings=verdicts.known,
            mc=dict(config=wproto.MC_BOUNDS[tier], distinct=rmc["distinct"], generated=rmc["generated"]),
            samples=[dict(id=c["id"], calls=wproto.describe(c)) for c in cases[:3] + cases[-2:]]),
            time.time() - t0, len(verdicts.violations),
            assumptions=["harness drivers (applyCall) map call records to Writer methods one-to-one",
                         "the TLA+ decoders IonBinary/IonText are a faithful reading of Ion 1.0"])
    return rc


def replay(path):
    with open(path) as f:
        rp = json.load(f)
    case = rp["case"]["case"]
    with core.Workdir("c12r") as wd:
        failed, _, _ = wproto.validate_traces(wd, [case], nshards=1)
    if failed:
        print("VIOLATION property=%s replay=%s" % (PROP, path))
        print("  " + json.dumps(failed[0]))
        return 1
    print("replay: trace accepted")
    return 0
