"""C20 — the `ion-go process` command is a faithful transcoder.

GEN  : catalogue and random forests (every type, every typed null in every position, nested containers,
       annotations, field names) rendered in text and binary by the specification; malformed documents from the
       C07 catalogue for the error-report clause.
EXEC : the ion-go binary built from the working tree, run as a subprocess: output formats text, pretty, binary,
       events, none x input from a file and from standard input (a pipe delivering the document in two bursts); stdout, the -e error report, stderr, status.
JUDGE: Judge_Cli (TLC): text/pretty/binary output decoded by the specification's decoders denotes the input's
       values; events output is $ion_event_stream followed by exactly Cli!Events(forest) (one SCALAR per scalar
       with a value_text literal that decodes to the value, CONTAINER_START/END per container, one STREAM_END,
       with ion_type, depth, field_name, annotations); none writes nothing; invalid input yields an error report
       entry; the process never panics.
"""
import json
import os
import subprocess
import time
from concurrent.futures import ThreadPoolExecutor

from vlib import core, rt
from checks import c03

PROP = "C20"
FORMATS = ["text", "pretty", "binary", "events", "none"]


def build_cli():
    out = os.path.join(core.BUILD, "ion-go")
    p = subprocess.run(["go", "build", "-o", out, "./cmd/ion-go"], cwd=core.REPO, env=core.go_env(),
                       stdout=subprocess.PIPE, stderr=subprocess.STDOUT, text=True)
    if p.returncode != 0:
        raise core.MachineryError("cannot build cmd/ion-go:\n" + p.stdout)
    return out


def documents(wd, tier, seed):
    n = 50 if tier == "quick" else 1500
    docs = []
    for c in c03.gen(wd, n, 1 if tier != "quick" else 0, seed)[0]:
        docs.append(dict(expect="accept", forest=c["forest"], bytes=c["bytes"], infmt="binary"))
    d2 = wd.sub("gentext")
    a = core.streams(n, 160, seed, 201)
    b = core.streams(n, 400, seed, 202, hi=1 << 16)
    core.write_ndjson(os.path.join(d2, "streams.ndjson"), [dict(s=x["s"], c=y["s"]) for x, y in zip(a, b)])
    core.tlc_eval(d2, "Gen_TextEnc", dict(StreamFile="streams.ndjson", OutFile="cases.ndjson", SlotReps=1), heap="8g")
    tc = core.read_ndjson(os.path.join(d2, "cases.ndjson"))
    if tier == "quick":
        tc = tc[core.seed() % 3::3]      # every third slot case (all typed nulls are among them over three seeds) + random ones
    for c in tc:
        docs.append(dict(expect="accept", forest=c["forest"], bytes=c["bytes"], infmt="text"))
    # typed nulls in every position, always
    bad = [b"[1, ", b"{a:", b"\"abc", b"{a:1,,}", b"1 2 ]", b"a::", b"\xe0\x01\x00\xea\xb6\x21\x01", b"\xe0\x01\x00\xea\x31\x00", b"2000-13-01T",
           b"[1, 2] {a:1} (b c", b"\xe0\x01\x00\xea\x21\x01\x8e\x90ab"]
    for x in bad:
        docs.append(dict(expect="reject", forest=[], bytes=list(x), infmt="bad"))
    return docs


def run_cli(cli, d, k, doc, fmt, use_stdin):
    base = os.path.join(d, "r%d" % k)
    inp, outp, errp = base + ".in", base + ".out", base + ".err"
    with open(inp, "wb") as f:
        f.write(bytes(doc["bytes"]))
    args = [cli, "process", "-f", fmt, "-o", outp, "-e", errp]
    try:
        if use_stdin:
            # a pipe that delivers the document in two bursts (a producer that is still writing): a short read is not the end
            data = bytes(doc["bytes"])
            cut = len(data) // 2
            pr = subprocess.Popen(args, stdin=subprocess.PIPE, stdout=subprocess.PIPE, stderr=subprocess.PIPE)
            try:
                pr.stdin.write(data[:cut])
                pr.stdin.flush()
                time.sleep(0.05)
                pr.stdin.write(data[cut:])
                pr.stdin.close()
            except (BrokenPipeError, OSError):
                pass
            try:
                pr.wait(timeout=20)
            except subprocess.TimeoutExpired:
                pr.kill()
                raise
            p = subprocess.CompletedProcess(args, pr.returncode, pr.stdout.read(), pr.stderr.read())
            pr.stdout.close()
            pr.stderr.close()
        else:
            p = subprocess.run(args + [inp], stdin=subprocess.DEVNULL, stdout=subprocess.PIPE, stderr=subprocess.PIPE, timeout=20)
        status, stderr, stdout = p.returncode, p.stderr, p.stdout
    except subprocess.TimeoutExpired:
        status, stderr, stdout = -9, b"timeout", b""
    out = open(outp, "rb").read() if os.path.exists(outp) else b""
    rep = open(errp, "rb").read() if os.path.exists(errp) else b""
    for x in (inp, outp, errp):
        if os.path.exists(x):
            os.remove(x)
    crashed = status not in (0, 1) or b"panic:" in stderr or b"fatal error:" in stderr or b"goroutine " in stderr or b"panic:" in stdout
    return dict(out=list(out), report=list(rep), crashed=crashed, status=status, stderr=stderr[:300].decode("latin1"))


def run(tier):
    t0 = time.time()
    verdicts = core.Verdicts(PROP)
    cli = build_cli()
    with core.Workdir("c20") as wd:
        docs = documents(wd, tier, core.seed())
        runs = [(di, fmt, sin) for di in range(len(docs)) for fmt in FORMATS for sin in (False, True)]
        dr = wd.sub("runs")
        with ThreadPoolExecutor(max_workers=16) as ex:
            outs = list(ex.map(lambda kr: run_cli(cli, dr, kr[0], docs[kr[1][0]], kr[1][1], kr[1][2]), enumerate(runs)))
        obs = []
        for k, ((di, fmt, sin), o) in enumerate(zip(runs, outs)):
            obs.append(dict(idx=k + 1, doc=di + 1, fmt=fmt, stdin=sin, out=o["out"], report=o["report"], crashed=o["crashed"], status=o["status"]))
        nsh = 14
        shards = core.shard(obs, nsh)

        def job(k):
            d = wd.sub("j%d" % k)
            core.write_ndjson(os.path.join(d, "cases.ndjson"), docs)
            core.write_ndjson(os.path.join(d, "obs.ndjson"), shards[k])
            core.tlc_eval(d, "Judge_Cli", dict(ObsFile="obs.ndjson", CaseFile="cases.ndjson", VerdictFile="verdict.ndjson"), heap="4g")
            return core.read_ndjson(os.path.join(d, "verdict.ndjson"))
        vs = [v for vsx in core.parallel([lambda k=k: job(k) for k in range(nsh)]) for v in vsx]
        by_idx = {v["idx"]: v for v in vs}
        if len(by_idx) != len(obs):
            raise core.MachineryError("Judge_Cli returned %d verdicts for %d runs" % (len(by_idx), len(obs)))
        nbad = 0
        for o, st in zip(obs, outs):
            v = by_idx[o["idx"]]
            if v["why"] != "ok":
                nbad += 1
                doc = docs[o["doc"] - 1]
                sig = dict(format=o["fmt"], stdin=o["stdin"], input=doc["infmt"], why=v["why"], features=rt.features(doc["forest"])[:30],
                           stderr=st["stderr"][:200], doc=(bytes(doc["bytes"]).decode("latin1") if doc["infmt"] != "binary" else bytes(doc["bytes"]).hex())[:120])
                verdicts.fail(sig, dict(doc=doc, fmt=o["fmt"], stdin=o["stdin"]))
        rc = verdicts.report()
        core.write_evidence(PROP, tier, "model_checking", dict(
            states=len(docs), transitions=len(obs), traces_validated_against_impl=len(obs), evaluations=len(obs),
            distinct_nontrivial=len({(o["doc"], o["fmt"]) for o in obs}),
            rule="runs = %d documents (spec-rendered text and binary forests + %d malformed) x {text,pretty,binary,events,none} x "
                 "{file, stdin}; distinct = (document, format) pairs" % (len(docs), sum(1 for d in docs if d["expect"] == "reject")),
            rejected=nbad, known_findings=verdicts.known,
            samples=[dict(fmt=o["fmt"], stdin=o["stdin"], out=bytes(o["out"][:160]).decode("latin1")) for o in obs[:12:3]]),
            time.time() - t0, len(verdicts.violations),
            assumptions=["a crash is: exit status other than 0/1, or 'panic:' / 'fatal error:' / a goroutine dump on stderr",
                         "a token in an event (field_name, annotations) is matched by its text occurring as a string field of the token struct"])
    return rc


def replay(path):
    with open(path) as f:
        rp = json.load(f)
    c = rp["case"]
    cli = build_cli()
    with core.Workdir("c20r") as wd:
        dr = wd.sub("runs")
        o = run_cli(cli, dr, 0, c["doc"], c["fmt"], c["stdin"])
        d = wd.sub("j")
        core.write_ndjson(os.path.join(d, "cases.ndjson"), [c["doc"]])
        core.write_ndjson(os.path.join(d, "obs.ndjson"), [dict(idx=1, doc=1, fmt=c["fmt"], stdin=c["stdin"], out=o["out"], report=o["report"],
                                                               crashed=o["crashed"], status=o["status"])])
        core.tlc_eval(d, "Judge_Cli", dict(ObsFile="obs.ndjson", CaseFile="cases.ndjson", VerdictFile="verdict.ndjson"))
        v = core.read_ndjson(os.path.join(d, "verdict.ndjson"))[0]
    if v["why"] != "ok":
        print("VIOLATION property=%s replay=%s" % (PROP, path))
        print("  " + v["why"])
        return 1
    print("replay: holds")
    return 0
