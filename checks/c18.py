"""C18 — independent Readers, Writers, Encoders, Decoders and Marshal/Unmarshal calls can run concurrently.

MC   : MC_Conc — spec/Conc.tla over the abstract alphabet of instrumented sites (every interleaving): NoRace,
       SoloEqual, Immutable; with each named deviation (in-place Adjust, unsynchronised field cache) TLC must
       find the violation, with the locked cache it must not (the model is not vacuous and not over-strict);
       and over programs RECORDED from ion-go (the access sequences of real workloads), every interleaving.
GEN  : groups of workloads over one shared catalog (readers and decoders of C10 streams with imports that hit,
       trim, extend and miss the catalog; writers, encoders, marshal/unmarshal of shared struct types and of
       never-seen struct types; direct table API users; table builders); schedules from Gen_ConcSched.
EXEC : solo   - each workload alone: output + program (hook ion.VerifYield)
       gated  - goroutines held at every shared access, released in schedule order; step log + fingerprint of
                the shared objects after every step
       free   - the race-detector build, goroutines released together, several processes
JUDGE: Judge_Conc (TLC): a gated log is a behaviour of Conc over the solo programs, fingerprints never change,
       outputs equal the solo outputs.  A race report naming ion-go code is a violation.
"""
import glob
import json
import os
import random
import re
import subprocess
import time

from vlib import core, rt
from checks import c10, c03

PROP = "C18"
STRUCT_TYPES = ["scalars", "tags", "coll", "ptr", "ifacestruct", "embed", "embedptr", "special", "annint", "annlist",
                "nested", "deep", "case", "map", "mapiface", "ifaces", "dyn", "dyn"]
WL_DEFAULT = dict(kind="", bytes=[], mode="", forest=[], imports=[], type="", seed=0, nonce=0, n=0)


def wl(**kw):
    d = dict(WL_DEFAULT)
    d.update(kw)
    return d


def reader_cases(wd, seed, per_cat):
    """C10 streams (binary and text) for catalogues 2..5 of MC_SymCtx."""
    rnd = random.Random(seed * 7919 + 18)
    hists = []
    for cat in (2, 3, 4, 5, 6):
        for _ in range(per_cat):
            n = rnd.randint(2, 6)
            hists.append(dict(cat=cat, h=[rnd.choice([rnd.randint(2, c10.NTABLES - 4), rnd.randint(c10.NTABLES + 1, c10.NITEMS), rnd.randint(c10.NTABLES - 3, c10.NITEMS)]) for _ in range(n)]))
    nsh = 8
    shards = core.shard(hists, nsh)

    def gen(k):
        d = wd.sub("rgen%d" % k)
        core.write_ndjson(os.path.join(d, "hists.ndjson"), shards[k])
        core.write_ndjson(os.path.join(d, "streams.ndjson"), core.streams(16, 400, seed, 180 + k, hi=1 << 16))
        core.tlc_eval(d, "Gen_SymCtx", dict(HistFile="hists.ndjson", StreamFile="streams.ndjson", OutFile="cases.ndjson", MaxLen=0),
                      heap="4g", extra=["INIT Init", "NEXT Next", "CHECK_DEADLOCK FALSE"])
        return core.read_ndjson(os.path.join(d, "cases.ndjson"))
    return [c for cs in core.parallel([lambda k=k: gen(k) for k in range(nsh)]) for c in cs]


def make_groups(cases, ngroups, seed, sizes, anydocs=()):
    rnd = random.Random(seed * 31337 + 18)
    bycat = {}
    for c in cases:
        bycat.setdefault(json.dumps(c["cat"]), []).append(c)
    keys = sorted(bycat)
    groups = []
    nonce = 0
    for g in range(ngroups):
        key = keys[g % len(keys)]
        cat = json.loads(key)
        pool = bycat[key]
        ncat = len(cat)
        n = rnd.choice(sizes)
        ws = []
        # every fifth group: only readers of streams that import a version the catalog lacks (the fall-back to the latest
        # version is the one lookup that could be tempted to cache)
        missing = [c for c in pool if any(42 <= x <= 51 for x in c["h"])]
        if g % 5 == 4 and len(missing) >= 2 and ncat:
            for _ in range(max(n, 3)):
                ws.append(wl(kind=rnd.choice(["read", "decode"]), bytes=rnd.choice(missing)["bytes"]))
            groups.append(dict(id="g%d" % (g + 1), cat=cat, workers=ws))
            continue
        # every fifth group: only readers of binary documents that hold timestamps with offsets, decimals and floats
        # (whatever a reader might be tempted to memoise per value)
        tsdocs = [c for c in anydocs if any(f.startswith("timestamp") for f in rt.features(c["forest"]))]
        if g % 5 == 3 and len(tsdocs) >= 2:
            for _ in range(max(n, 4)):
                ws.append(wl(kind=rnd.choice(["read", "decode"]), bytes=rnd.choice(tsdocs)["bytes"]))
            groups.append(dict(id="g%d" % (g + 1), cat=cat, workers=ws))
            continue
        for _ in range(n):
            imps = sorted(rnd.sample(range(1, ncat + 1), rnd.randint(0, ncat))) if ncat else []
            k = rnd.choice(["read", "read", "decode", "write", "write", "marshal", "encode", "unmarshal", "unmarshal", "sstapi", "builder"])
            if k in ("read", "decode"):
                # a symbol-table stream of this catalogue, or (one in three) a document with values of every type
                # (timestamps with offsets, decimals, floats, lobs ...) from the binary generator of C03
                c = rnd.choice(anydocs) if anydocs and rnd.random() < 0.34 else rnd.choice(pool)
                ws.append(wl(kind=k, bytes=c["bytes"]))
            elif k == "write":
                acc = [c for c in pool if c["forest"]]
                forest = rnd.choice(acc)["forest"] if acc else []
                if anydocs and rnd.random() < 0.34:
                    forest = rnd.choice(anydocs)["forest"]
                ws.append(wl(kind=k, mode=rnd.choice(["text", "pretty", "binary", "binary"]), forest=forest, imports=imps))
            elif k in ("marshal", "encode", "unmarshal"):
                nonce += 1
                ws.append(wl(kind=k, type=rnd.choice(STRUCT_TYPES), seed=rnd.randint(1, 1 << 30), nonce=seed * 100000 + nonce,
                             mode=rnd.choice(["text", "binary", "binary"]), imports=imps, n=rnd.randint(0, 2)))
            elif k == "sstapi":
                ws.append(wl(kind=k, imports=imps or ([1] if ncat else []), n=rnd.randint(0, 3)))
            else:
                ws.append(wl(kind=k, imports=imps, seed=rnd.randint(1, 1 << 30), n=rnd.randint(0, 3)))
        groups.append(dict(id="g%d" % (g + 1), cat=cat, workers=ws))
    return groups


def run_conc(wd, tag, cases, nshards, binary="harness", env=None, timeout=900):
    """Run conc cases in nshards processes; returns observations in the order of cases."""
    nshards = max(1, min(nshards, len(cases)))
    shards = core.shard(list(enumerate(cases)), nshards)

    def job(k):
        d = wd.sub("%s%d" % (tag, k))
        core.write_ndjson(os.path.join(d, "in.ndjson"), [c for _, c in shards[k]])
        e = dict(env or {})
        if binary == "harness-race":
            e["GORACE"] = "log_path=%s halt_on_error=0 exitcode=0 history_size=5" % os.path.join(d, "race")
        core.run_harness("conc", os.path.join(d, "in.ndjson"), os.path.join(d, "obs.ndjson"), timeout=timeout, extra_env=e, binary=binary)
        obs = core.read_ndjson(os.path.join(d, "obs.ndjson"))
        if len(obs) != len(shards[k]):
            raise core.MachineryError("conc harness returned %d observations for %d cases" % (len(obs), len(shards[k])))
        reports = []
        for f in glob.glob(os.path.join(d, "race.*")):
            reports += parse_race(open(f, errors="replace").read())
        return [(i, o) for (i, _), o in zip(shards[k], obs)], reports
    res = core.parallel([lambda k=k: job(k) for k in range(nshards)], nproc=16)
    obs = [None] * len(cases)
    reports = []
    for k, (pairs, reps) in enumerate(res):
        for i, o in pairs:
            obs[i] = o
        reports += [(k, r) for r in reps]
    return obs, reports


FRAME = re.compile(r"^\s+(github\.com/amzn/ion-go/\S+?)\(")


def parse_race(text):
    out = []
    for block in text.split("==================")[1:]:
        if "WARNING: DATA RACE" not in block:
            continue
        frames = []
        for line in block.splitlines():
            m = FRAME.match(line)
            if m:
                frames.append(m.group(1).replace("github.com/amzn/ion-go/", ""))
        out.append(dict(frames=frames, text=block.strip()[:3000]))
    return out


def mc(wd, tag, progfile, dev, invariants, props=(), timeout=600):
    d = wd.sub(tag)
    if progfile:
        os.replace(progfile, os.path.join(d, "progs.ndjson"))
    core.write_cfg(os.path.join(d, "mc.cfg"), ["SPECIFICATION Spec", "CONSTANTS", '  ProgFile = "%s"' % ("progs.ndjson" if progfile else ""),
                                              '  Dev = "%s"' % dev] + (["INVARIANTS " + " ".join(invariants)] if invariants else []) +
                   (["PROPERTIES " + " ".join(props)] if props else []) + ["CHECK_DEADLOCK FALSE"])
    r = core.run_tlc(d, "MC_Conc", "mc.cfg", workers=4, heap="4g", timeout=timeout, ok_codes=(0, 12, 13))
    r["violated"] = re.findall(r"(?:Invariant|Action property|Temporal property) (\w+) is violated", r["out"])
    if r["code"] != 0 and not r["violated"]:
        raise core.MachineryError("TLC failed on MC_Conc:\n" + r["out"][-2000:])
    return r


def run(tier):
    t0 = time.time()
    quick = tier == "quick"
    verdicts = core.Verdicts(PROP)
    core.build_race_harness()
    seed = core.seed()
    with core.Workdir("c18") as wd:
        # ---- MC: the abstract model, its deviations (controls), later the recorded programs
        base = mc(wd, "mc0", None, "", ["NoRace", "SoloEqual"], ["Immutable"])
        if base["violated"]:
            raise core.MachineryError("Conc.tla: the baseline model violates " + str(base["violated"]))
        controls = {}
        for dev, expect in (("adjust_in_place", True), ("field_cache_unsynced", True), ("field_cache_locked", False)):
            for inv in ("NoRace", "SoloEqual"):
                r = mc(wd, "mc-%s-%s" % (dev, inv), None, dev, [inv])
                controls["%s/%s" % (dev, inv)] = bool(r["violated"])
                if bool(r["violated"]) != expect:
                    raise core.MachineryError("Conc.tla control %s/%s: violation expected=%s found=%s" % (dev, inv, expect, bool(r["violated"])))
        # ---- GEN groups
        cases = reader_cases(wd, seed, 12 if quick else 60)
        ngated, nfree = (24, 64) if quick else (160, 600)
        anydocs = [c for c in c03.gen(wd, 40 if quick else 300, 0, seed)[0] if c["kind"] in ("random", "random-parts") and len(c["bytes"]) < 3000]
        ggroups = make_groups(cases, ngated, seed, [2, 2, 3, 3, 4], anydocs)
        fgroups = make_groups(cases, nfree, seed + 1000, [3, 4, 6, 8], anydocs)
        for g in fgroups:
            g["id"] = "f" + g["id"]
        allg = ggroups + fgroups
        solo, _ = run_conc(wd, "solo", [dict(g, runmode="solo", schedule=[]) for g in allg], 14)
        for s in solo:
            if s["problem"].startswith("harness"):
                raise core.MachineryError(s["problem"])
        solo_idx = {s["id"]: i + 1 for i, s in enumerate(solo)}
        # ---- MC over recorded programs (small groups: product of program lengths bounded)
        mcreal = []
        budget = 8 if quick else 40
        for g, s in zip(ggroups, solo):
            lens = [len(p) for p in s["progs"]]
            prod = 1
            for n in lens:
                prod *= n + 1
            if prod <= (200000 if quick else 3000000) and len(mcreal) < budget:
                pf = os.path.join(wd.path, "progs-%s.ndjson" % g["id"])
                core.write_ndjson(pf, [dict(prog=[dict(site=x["site"], obj=x["obj"]) for x in p]) for p in s["progs"]])
                mcreal.append((g["id"], pf, prod))

        def mcjob(gid, pf):
            r = mc(wd, "mcreal-" + gid, pf, "", ["NoRace", "SoloEqual"], ["Immutable"], timeout=1200)
            if r["violated"]:
                raise core.MachineryError("Conc.tla over the recorded programs of %s violates %s (every site is a read)" % (gid, r["violated"]))
            return r
        mcres = core.parallel([lambda gid=gid, pf=pf: mcjob(gid, pf) for gid, pf, _ in mcreal], nproc=4)
        # ---- schedules
        ds = wd.sub("sched")
        core.write_ndjson(os.path.join(ds, "groups.ndjson"), [dict(id=g["id"], lens=[len(p) for p in s["progs"]]) for g, s in zip(ggroups, solo)])
        core.write_ndjson(os.path.join(ds, "streams.ndjson"), core.streams(16, 3000, seed, 181, hi=1 << 16))
        core.tlc_eval(ds, "Gen_ConcSched", dict(GroupFile="groups.ndjson", StreamFile="streams.ndjson", OutFile="sched.ndjson",
                                                 MaxPos=3 if quick else 12, NRandom=3 if quick else 12), heap="6g")
        scheds = core.read_ndjson(os.path.join(ds, "sched.ndjson"))
        gby = {g["id"]: g for g in ggroups}
        gated_cases = [dict(gby[s["id"]], runmode="gated", schedule=s["schedule"], id=s["id"]) for s in scheds]
        gated, _ = run_conc(wd, "gated", gated_cases, 16)
        for o in gated:
            if o["problem"].startswith("harness"):
                raise core.MachineryError(o["problem"])
        # ---- free runs under the race detector: every group in several processes (first use of a type happens once per process)
        reps = 2 if quick else 4
        free_cases = [dict(g, runmode="free", schedule=[]) for g in fgroups + ggroups] * reps
        rnd = random.Random(seed)
        rnd.shuffle(free_cases)
        free, races = run_conc(wd, "free", free_cases, 16, binary="harness-race", timeout=1800)
        # ---- JUDGE
        runs = []
        for sc, o in zip(scheds, gated):
            runs.append(dict(solo=solo_idx[o["id"]], runmode="gated", outs=o["outs"], log=o["log"], fp0=o["fp0"], fpend=o["fpend"],
                             problem=o["problem"], kind=sc["kind"], schedule=sc["schedule"], id=o["id"]))
        for o in free:
            runs.append(dict(solo=solo_idx[o["id"]], runmode="free", outs=o["outs"], log=[], fp0=o["fp0"], fpend=o["fpend"],
                             problem=o["problem"], kind="free", schedule=[], id=o["id"]))
        for i, r in enumerate(runs):
            r["idx"] = i + 1
        nsh = 12
        shards = core.shard(runs, nsh)

        def judge(k):
            d = wd.sub("judge%d" % k)
            core.write_ndjson(os.path.join(d, "solo.ndjson"), [dict(id=s["id"], outs=s["outs"], progs=s["progs"], fp0=s["fp0"], problem=s["problem"]) for s in solo])
            core.write_ndjson(os.path.join(d, "runs.ndjson"), [{k_: v for k_, v in r.items() if k_ not in ("kind", "schedule", "id")} for r in shards[k]])
            core.tlc_eval(d, "Judge_Conc", dict(SoloFile="solo.ndjson", RunFile="runs.ndjson", VerdictFile="verdict.ndjson"), heap="6g")
            return core.read_ndjson(os.path.join(d, "verdict.ndjson"))
        vs = {v["idx"]: v for vsx in core.parallel([lambda k=k: judge(k) for k in range(nsh)]) for v in vsx}
        if len(vs) != len(runs):
            raise core.MachineryError("Judge_Conc returned %d verdicts for %d runs" % (len(vs), len(runs)))
        gall = {g["id"]: g for g in allg}
        nbad = 0
        for r in runs:
            v = vs[r["idx"]]
            if v["why"] == "ok":
                continue
            if v["why"].startswith("harness"):
                raise core.MachineryError(v["why"])
            nbad += 1
            g = gall[r["id"]]
            kinds = [w["kind"] + (":" + w["type"] if w["type"] else "") for w in g["workers"]]
            sig = dict(why=v["why"], mode=r["runmode"], schedule_kind=r["kind"], workers=kinds, differing=[kinds[k - 1] for k in v["workers"]])
            verdicts.fail(sig, dict(group=g, runmode=r["runmode"], schedule=r["schedule"]))
        seen = set()
        for shard_k, rp in races:
            ion_frames = [f for f in rp["frames"]]
            if not ion_frames:
                raise core.MachineryError("race report without ion-go frames (harness race?):\n" + rp["text"][:1500])
            key = tuple(sorted(set(ion_frames))[:6])
            if key in seen:
                continue
            seen.add(key)
            verdicts.fail(dict(why="data race reported by the race detector", frames=list(key)), dict(race=rp["text"], free_cases="all"))
        rc = verdicts.report()
        core.write_evidence(PROP, tier, "exploration", dict(
            states=base["distinct"] + sum(r["distinct"] for r in mcres), transitions=base["generated"] + sum(r["generated"] for r in mcres),
            traces_validated_against_impl=len(runs), evaluations=len(runs),
            distinct_nontrivial=len({(r["id"], json.dumps(r["schedule"])) for r in runs if r["runmode"] == "gated"}) + len(fgroups) + len(ggroups),
            rule="gated runs = %d groups x schedules of Gen_ConcSched (serial rotations, single preemptions at sampled positions for every "
                 "ordered pair, quanta 1/2/5, random); free runs = %d groups x %d repetitions in 16 race-detector processes; MC = abstract "
                 "alphabet exhaustively + recorded programs of %d groups exhaustively (%s interleaving states)" %
                 (len(ggroups), len(fgroups) + len(ggroups), reps, len(mcreal), sum(p for _, _, p in mcreal)),
            controls=controls, gated_runs=len(gated), free_runs=len(free), race_reports=len(races),
            steps_replayed=sum(len(o["log"]) for o in gated), schedule_kinds=sorted({s["kind"] for s in scheds}),
            workload_kinds=sorted({w["kind"] for g in allg for w in g["workers"]}), rejected=nbad, known_findings=verdicts.known,
            samples=[dict(group=r["id"], workers=[w["kind"] + (":" + w["type"] if w["type"] else "") for w in gall[r["id"]]["workers"]],
                          schedule_kind=r["kind"], schedule_prefix=r["schedule"][:40], steps=len(r["log"])) for r in runs[:400:97]]),
            time.time() - t0, len(verdicts.violations),
            assumptions=["shared state is reached only through the instrumented sites (shared tables, catalog, struct types); anything else "
                         "shared between goroutines is seen only by the race detector and the output comparison",
                         "gated runs interleave at the grain of instrumented calls; finer interleavings are left to the free runs",
                         "the race detector reports races that occur in the executed runs, not all possible ones"])
    return rc


def replay(path):
    with open(path) as f:
        rp = json.load(f)
    c = rp["case"]
    if "race" in c:
        print("replay of a race report: re-run ./check C18 (races are found by the free runs as a whole)")
        print(c["race"][:2000])
        return 2
    core.build_race_harness()
    g = c["group"]
    with core.Workdir("c18r") as wd:
        solo, _ = run_conc(wd, "solo", [dict(g, runmode="solo", schedule=[])], 1)
        binary = "harness-race" if c["runmode"] == "free" else "harness"
        n = 20 if c["runmode"] == "free" else 1
        obs, races = run_conc(wd, "run", [dict(g, runmode=c["runmode"], schedule=c["schedule"])] * n, 1, binary=binary)
        d = wd.sub("judge")
        core.write_ndjson(os.path.join(d, "solo.ndjson"), [dict(id=s["id"], outs=s["outs"], progs=s["progs"], fp0=s["fp0"], problem=s["problem"]) for s in solo])
        core.write_ndjson(os.path.join(d, "runs.ndjson"), [dict(idx=i + 1, solo=1, runmode=c["runmode"], outs=o["outs"], log=o["log"], fp0=o["fp0"],
                                                                fpend=o["fpend"], problem=o["problem"]) for i, o in enumerate(obs)])
        core.tlc_eval(d, "Judge_Conc", dict(SoloFile="solo.ndjson", RunFile="runs.ndjson", VerdictFile="verdict.ndjson"))
        bad = [v for v in core.read_ndjson(os.path.join(d, "verdict.ndjson")) if v["why"] != "ok"]
    if bad or races:
        print("VIOLATION property=%s replay=%s" % (PROP, path))
        print("  " + (bad[0]["why"] if bad else "data race: " + ", ".join(races[0][1]["frames"][:4])))
        return 1
    print("replay: holds")
    return 0
