"""C08 — what a Reader returns does not depend on how the caller navigated.

MC   : MC_ReaderNav — WellFormed, RefusedChangesNothing, OnMeansValue, StepOutReturns on the cursor model.
GEN  : every navigation program up to a bounded length over {Next, StepIn, StepOut, WrongAcc} for every
       catalogue document (history in state, tlc -dump), plus seeded long random programs.
EXEC : each program on each rendering of the document (spec binary encodings under choice streams with NOP
       pads / padded lengths / sorted structs; ion-go's own text and pretty output; literal text documents
       whose strings, clobs and comments contain closing delimiters), one event per call.
JUDGE: Trace_ReaderNav validates every call result and everything the Reader shows afterwards (Type,
       IsNull, FieldName, Annotations, scalar value, IsInStruct) against the cursor model.
       A rendering whose plain full traversal already disagrees with the forest is not a C08 case
       (that is C02/C03's finding): it is skipped and counted.
"""
import json
import os
import random
import re
import time

from vlib import core, rt

PROP = "C08"
OPS = ["Next", "StepIn", "StepOut", "WrongAcc"]


def parse_dump(path, want_len):
    progs, doc = set(), None
    rd = re.compile(r"^/\\ doc = (\d+)")
    with open(path) as f:
        for line in f:
            m = rd.match(line)
            if m:
                doc = int(m.group(1))
                continue
            m = core.HIST_RE.match(line)
            if m:
                body = m.group(1).strip()
                t = tuple(int(x) for x in body.split(",")) if body else ()
                if len(t) == want_len:
                    progs.add((doc, t))
    return sorted(progs)


def validate(wd, cases, nshards=14, tag="t"):
    if not cases:
        return [], 0
    nshards = max(1, min(nshards, len(cases) // 300 + 1))
    shards = core.shard(cases, nshards)

    def job(k):
        d = wd.sub("%s%d" % (tag, k))
        core.write_ndjson(os.path.join(d, "cases.ndjson"), shards[k])
        core.run_harness("nav", os.path.join(d, "cases.ndjson"), os.path.join(d, "trace.ndjson"))
        with open(os.path.join(d, "trace.ndjson")) as f:
            n = sum(1 for _ in f)
        core.write_cfg(os.path.join(d, "Trace_ReaderNav.cfg"),
                       ["SPECIFICATION TraceSpec", "CONSTANTS", '  TraceFile = "trace.ndjson"',
                        '  VerdictFile = "verdict.ndjson"', "CHECK_DEADLOCK FALSE"])
        core.run_tlc(d, "Trace_ReaderNav", "Trace_ReaderNav.cfg", workers=1, timeout=1800, heap="3g")
        vf = os.path.join(d, "verdict.ndjson")
        if not os.path.exists(vf):
            raise core.MachineryError("trace validation wrote no verdict in " + d)
        return core.read_ndjson(vf)[0]["failed"], n
    res = core.parallel([lambda k=k: job(k) for k in range(nshards)])
    return [f for fs, _ in res for f in fs], sum(n for _, n in res)


def run(tier):
    t0 = time.time()
    maxlen, nbin, nlong, longlen = (4, 2, 60, 30) if tier == "quick" else (6, 4, 400, 80)
    verdicts = core.Verdicts(PROP)
    with core.Workdir("c08") as wd:
        # documents and renderings
        dg = wd.sub("gendocs")
        core.write_ndjson(os.path.join(dg, "streams.ndjson"), core.streams(nbin, 300, core.seed(), 8, hi=1 << 16))
        core.tlc_eval(dg, "Gen_NavDocs", dict(StreamFile="streams.ndjson", OutFile="docs.ndjson"))
        docs = core.read_ndjson(os.path.join(dg, "docs.ndjson"))
        # programs (MC + GEN in one TLC run)
        dm = wd.sub("mc")
        core.write_cfg(os.path.join(dm, "mc.cfg"), ["SPECIFICATION Spec", "CONSTANTS", "  MaxLen = %d" % maxlen,
                                                    "INVARIANTS WellFormed OnMeansValue",
                                                    "PROPERTIES RefusedChangesNothing StepOutReturns",
                                                    "CHECK_DEADLOCK FALSE"])
        rmc = core.run_tlc(dm, "MC_ReaderNav", "mc.cfg", workers=6, args=["-dump", "states.dump"], heap="6g")
        progs = parse_dump(os.path.join(dm, "states.dump"), maxlen)
        os.remove(os.path.join(dm, "states.dump"))
        rnd = random.Random(core.seed() * 7919 + 8)
        for d in docs:
            for _ in range(nlong):
                progs.append((d["doc"], tuple(rnd.choices([1, 2, 3, 4], weights=[10, 5, 3, 2], k=longlen))))
        # a document of tens of kilobytes makes every event of its traces that large: it gets a seeded sample of programs
        heavy = {d["doc"] for d in docs if len(json.dumps(d["forest"])) > 20000}
        if heavy:
            hp = [x for x in progs if x[0] in heavy]
            keep = set(map(id, rnd.sample(hp, min(len(hp), 250 * len(heavy)))))
            progs = [x for x in progs if x[0] not in heavy or id(x) in keep]
        # renderings, each pre-checked by a plain full traversal against the forest
        rends = []
        for d in docs:
            for k, b in enumerate(d["bins"]):
                rends.append(dict(doc=d["doc"], name="bin%d" % k, mode="bytes", bytes=b, forest=d["forest"]))
            if d["text"]:
                rends.append(dict(doc=d["doc"], name="literal-text", mode="bytes", bytes=d["text"], forest=d["forest"]))
            rends.append(dict(doc=d["doc"], name="ion-go-text", mode="text", forest=d["forest"]))
            rends.append(dict(doc=d["doc"], name="ion-go-pretty", mode="pretty", forest=d["forest"]))
        full = lambda f: []
        pre_cases = []
        for r in rends:
            # plain traversal program: enough Next/StepIn/StepOut is implied by `read`; use Judge_RT on bytes renderings
            pre_cases.append(r)
        byte_rends = [r for r in rends if r["mode"] == "bytes"]
        vs, _ = rt.exec_and_judge(wd, [dict(forest=r["forest"], bytes=r["bytes"]) for r in byte_rends], sub="read", tag="pre")
        skipped = []
        ok_rends = [r for r in rends if r["mode"] != "bytes"]
        for r, v in zip(byte_rends, vs):
            if v["c01"] == "ok":
                ok_rends.append(r)
            else:
                skipped.append(dict(doc=r["doc"], rendering=r["name"], why=v["c01"]))
        by_doc = {}
        for r in ok_rends:
            by_doc.setdefault(r["doc"], []).append(r)
        cases = []
        for doc, p in progs:
            for r in by_doc.get(doc, []):
                c = dict(id="d%d/%s/%s" % (doc, r["name"], "".join(map(str, p))), doc=doc, mode=r["mode"],
                         prog=[OPS[i - 1] for i in p])
                c["forest"] = r["forest"]
                if r["mode"] == "bytes":
                    c["bytes"] = r["bytes"]
                cases.append(c)
        failed, nevents = validate(wd, cases)
        by_id = {c["id"]: c for c in cases}
        if failed:
            ag, _ = validate(wd, [by_id[f["id"]] for f in failed], tag="confirm")
            again = {f["id"]: f for f in ag}
            for f in failed:
                a = again.get(f["id"])
                if a is None:
                    raise core.MachineryError("rejection of %s did not reproduce" % f["id"])
                c = by_id[f["id"]]
                sig = dict(doc=c["doc"], rendering=f["id"].split("/")[1], prog=c["prog"][:a["call"]], why=a["why"])
                verdicts.fail(sig, dict(case=c, verdict=a))
        rc = verdicts.report()
        core.write_evidence(PROP, tier, "model_checking", dict(
            states=rmc["distinct"], transitions=rmc["generated"], traces_validated_against_impl=len(cases),
            events_validated=nevents, documents=len(docs), renderings=len(ok_rends), renderings_skipped=skipped,
            distinct_nontrivial=len({(c["doc"], tuple(c["prog"])) for c in cases if "StepIn" in c["prog"]}),
            evaluations=len(cases),
            rule="programs = all sequences of length %d over {Next,StepIn,StepOut,WrongAcc} per document (leaves of "
                 "the history tree of MC_ReaderNav) + %d seeded random programs of length %d per document; each on "
                 "every rendering; non-trivial = contains a StepIn" % (maxlen, nlong, longlen),
            exhaustive=True, rejected=len(failed), known_findings=verdicts.known,
            samples=[dict(id=c["id"], prog=c["prog"]) for c in cases[:2] + cases[-2:]]),
            time.time() - t0, len(verdicts.violations),
            assumptions=["harness observe() reads scalars with their own accessor after every call",
                         "text renderings by ion-go's own writers are used only as documents; the oracle is the forest"])
    return rc


def replay(path):
    with open(path) as f:
        rp = json.load(f)
    with core.Workdir("c08r") as wd:
        failed, _ = validate(wd, [rp["case"]["case"]], nshards=1)
    if failed:
        print("VIOLATION property=%s replay=%s" % (PROP, path))
        print("  " + json.dumps(failed[0]))
        return 1
    print("replay: trace accepted")
    return 0
