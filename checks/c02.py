"""C02 — the text reader decodes every valid spelling of a value to exactly that value.

GEN  : spec/IonTextEnc.tla prints catalogue and random forests under streams of spelling choices
       (whitespace and both comment forms in every legal gap, radix/underscore ints, d/D and point
       placement of decimals, e/E floats by exact decimal expansion, short/long/concatenated strings with
       every escape and line continuation, quoted/unquoted/operator/$n symbols, base64 with inner
       whitespace, short and long clobs, timestamp offset spellings, trailing commas, string field
       names).  Spec-internal law: TextDecode(text) ~ forest (printer and recogniser are independent).
EXEC : NewReaderBytes full traversal with every accessor.
JUDGE: Judge_RT (TLC): read-back Equiv forest.
"""
import json
import os
import time

from vlib import core, rt

PROP = "C02"


def gen(wd, nrandom, slotreps, seed):
    d = wd.sub("gen")
    a = core.streams(nrandom, 160, seed, 21)
    b = core.streams(nrandom, 400, seed, 22, hi=1 << 16)
    core.write_ndjson(os.path.join(d, "streams.ndjson"), [dict(s=x["s"], c=y["s"]) for x, y in zip(a, b)])
    r = core.tlc_eval(d, "Gen_TextEnc", dict(StreamFile="streams.ndjson", OutFile="cases.ndjson", SlotReps=slotreps),
                      heap="8g")
    return core.read_ndjson(os.path.join(d, "cases.ndjson")), r


def run(tier):
    t0 = time.time()
    nrandom, reps = (1500, 2) if tier == "quick" else (20000, 8)
    verdicts = core.Verdicts(PROP)
    with core.Workdir("c02") as wd:
        cases, rgen = gen(wd, nrandom, reps, core.seed())
        for c in cases:
            c["mode"] = "text"
        vs, obs = rt.exec_and_judge(wd, cases, sub="read")
        inconsistent = [v for v in vs if v["c04"] != "ok"]
        if len(inconsistent) > 0:
            # the specification's encoder and decoder disagree: a defect of the machinery, never an alarm
            raise core.MachineryError("spec encoder/decoder disagree on %d cases, e.g. %s" %
                                      (len(inconsistent), json.dumps(inconsistent[0])))
        bad = [(v, o) for v, o in zip(vs, obs) if v["c01"] != "ok"]
        if bad:
            idxs = sorted({v["gidx"] for v, _ in bad})
            av, ao = rt.exec_and_judge(wd, [cases[i] for i in idxs], tag="confirm", sub="read")
            again = {idxs[v["gidx"]]: (v, o) for v, o in zip(av, ao)}
            for v, o in bad:
                a = again.get(v["gidx"])
                if a is None or a[0]["c01"] == "ok":
                    raise core.MachineryError("failure of case %d did not reproduce" % v["gidx"])
                sig = dict(symptom=a[0]["c01"], rerr=a[1].get("rerr", "")[:160], rpanic=a[1].get("rpanic", ""),
                           features=rt.features(cases[v["gidx"]]["forest"]))
                verdicts.fail(sig, dict(forest=cases[v["gidx"]]["forest"], bytes=cases[v["gidx"]]["bytes"],
                                        verdict=a[0], back=a[1].get("back")))
        rc = verdicts.report()
        distinct = len({bytes(c["bytes"]) for c in cases})
        core.write_evidence(PROP, tier, "model_checking", dict(
            states=len(cases), transitions=len(vs), traces_validated_against_impl=len(vs),
            evaluations=len(vs), distinct_nontrivial=distinct,
            rule="cases = (SlotCases x %d choice streams) + %d random forests, each rendered by IonTextEnc under a "
                 "seeded choice stream; distinct = distinct byte strings; every case also satisfies the spec-internal "
                 "law BinDecode(bytes) ~ forest" % (reps, nrandom),
            rejected=len(bad), known_findings=verdicts.known, gen_wall_s=round(rgen["wall"], 1),
            samples=[dict(text=bytes(c["bytes"]).decode("utf8", "replace")[:200], forest=c["forest"]) for c in cases[:2] + cases[-2:]]),
            time.time() - t0, len(verdicts.violations),
            assumptions=["the TLA+ encoder/decoder pair is a faithful reading of Ion 1.0 text (they must agree on every case)"])
    return rc


def replay(path):
    with open(path) as f:
        rp = json.load(f)
    case = rp["case"]
    with core.Workdir("c02r") as wd:
        vs, obs = rt.exec_and_judge(wd, [dict(forest=case["forest"], bytes=case["bytes"], mode="text")], nshards=1, sub="read")
    if vs[0]["c01"] != "ok":
        print("VIOLATION property=%s replay=%s" % (PROP, path))
        print("  " + json.dumps(vs[0]))
        return 1
    print("replay: holds")
    return 0
