"""C06 — no input can crash, hang or exhaust memory in a Reader, Decoder or Unmarshal.

MC   : MC over ReaderDriver.tla — the caller may make any call at any moment (Total); every call sequence
       up to MaxLen becomes a program replayed on the real Reader.
GEN  : spec/Hostile.tla — grammar-aware hostile documents (typed nulls and odd scalars in every slot of text and
       binary symbol tables, every type code x length nibble, declared lengths 2^(7k)-1 / 2^(7k) /
       unterminated in four contexts, decimal and timestamp-fraction exponents around 2^31 and 2^63 with zero /
       negative-zero / non-zero coefficients, timestamp components out of range, symbol IDs to 2^64 and beyond,
       nested containers, extreme text literals) and repetition families pre unit^n post; seeded byte-level
       mutations of valid spec-encoded documents and of the hostile ones; ALL byte strings up to a length bound,
       with and without the binary version marker.
EXEC : an isolated worker process per shard (address-space limit, per-driver watchdog): full traversal calling
       every accessor on every value, skip-only, greedy step-in, the call programs, Decoder.Decode to the end,
       Unmarshal into 20 target types; recovered panics, bytes allocated, time; a process that dies is restarted
       after the input that killed it.
JUDGE: Judge_Total (TLC): no panic, allocation <= 8 MiB + 1 KiB per input byte, time <= 5 s + 50 us per byte, per
       driver; a dead worker (fatal runtime error, out of memory, watchdog) fails the input it was running.
"""
import json
import os
import random
import re
import resource
import subprocess
import time

from vlib import core
from checks import c03

PROP = "C06"
TARGETS = ["iface", "string", "int", "bytes", "scalars", "timestamp", "decimalptr", "token", "map", "ints", "bigint", "time",
           "float64", "bool", "tags", "ifaces", "mapiface", "nested", "annint", "ptrint"]
LETTER = {1: "N", 2: "I", 3: "O", 4: "A"}
INTERESTING = [0x00, 0x01, 0x0e, 0x0f, 0x10, 0x1f, 0x20, 0x21, 0x2e, 0x31, 0x3f, 0x40, 0x44, 0x48, 0x4f, 0x50, 0x5e, 0x60, 0x6e, 0x6f, 0x70, 0x71,
               0x7e, 0x7f, 0x80, 0x81, 0x8e, 0x8f, 0x9e, 0xa0, 0xae, 0xb0, 0xbe, 0xbf, 0xc0, 0xce, 0xd0, 0xd1, 0xde, 0xdf, 0xe0, 0xe3, 0xee, 0xef,
               0xea, 0xf0, 0xff, 0x22, 0x27, 0x5c, 0x7b, 0x7d, 0x5b, 0x5d, 0x28, 0x29, 0x3a, 0x2c, 0x2e, 0x2d, 0x2b, 0x5f, 0x30, 0x39, 0x65,
               0x64, 0x54, 0x5a, 0x24, 0x2f, 0x2a, 0x0a, 0x6e, 0x74]


def limit_as():
    resource.setrlimit(resource.RLIMIT_AS, (12 << 30, 12 << 30))


def run_worker(d, sub, cases, deadline=20):
    """Runs the worker over cases (dicts with idx); restarts it after an input that kills it.
    Returns (observations by idx, deaths: list of dict(idx, how, stderr))."""
    obs, deaths = {}, []
    todo = list(cases)
    round_ = 0
    while todo:
        round_ += 1
        fin, fout = os.path.join(d, "in%d.ndjson" % round_), os.path.join(d, "out%d.ndjson" % round_)
        core.write_ndjson(fin, todo)
        env = core.go_env()
        env["VERIF_TOTAL_DEADLINE_S"] = str(deadline)
        with open(fin, "rb") as fi, open(fout, "wb") as fo:
            p = subprocess.run([os.path.join(core.BUILD, "harness"), sub], stdin=fi, stdout=fo, stderr=subprocess.PIPE, env=env, preexec_fn=limit_as)
        begun = None
        done = set()
        info = None
        with open(fout) as f:
            for line in f:
                try:
                    o = json.loads(line)
                except ValueError:
                    continue        # a line cut short by the death of the process
                if "begin" in o:
                    begun, info = o["begin"], o.get("input")
                else:
                    obs[o["idx"]] = o
                    done.add(o["idx"])
        os.remove(fin)
        os.remove(fout)
        if p.returncode == 0:
            break
        err = p.stderr.decode(errors="replace")
        if begun is None or begun in done:
            raise core.MachineryError("worker %s died (exit %d) outside an input: %s" % (sub, p.returncode, err[-1500:]))
        how = "hang (watchdog)" if "HANG idx=" in err else "fatal: " + next((l for l in err.splitlines() if l.startswith(("fatal error", "runtime:", "panic:", "SIG"))), err.strip().splitlines()[0] if err.strip() else "exit %d" % p.returncode)
        deaths.append(dict(idx=begun, how=how[:200], stderr=err[:3000], input=info))
        if sub == "totalenum":
            # an enumeration case cannot be resumed in the middle: report and stop this shard
            break
        k = next(i for i, c in enumerate(todo) if c["idx"] == begun)
        todo = todo[k + 1:]
        if len(deaths) > 50:
            break
    return obs, deaths


def hostile(wd):
    d = wd.sub("hostile")
    core.tlc_eval(d, "Gen_Hostile", dict(OutFile="fixed.ndjson", RepFile="reps.ndjson"), heap="6g")
    return core.read_ndjson(os.path.join(d, "fixed.ndjson")), core.read_ndjson(os.path.join(d, "reps.ndjson"))


def programs(wd, maxlen):
    d = wd.sub("progs")
    core.write_cfg(os.path.join(d, "mc.cfg"), ["SPECIFICATION Spec", "CONSTANTS", "  MaxLen = %d" % maxlen, "INVARIANTS Total", "CHECK_DEADLOCK FALSE"])
    r = core.run_tlc(d, "ReaderDriver", "mc.cfg", workers=4, args=["-dump", "states.dump"], heap="4g")
    hs = set()
    rx = re.compile(r"^(?:/\\ )?hist = <<(.*)>>\s*$")
    with open(os.path.join(d, "states.dump")) as f:
        for line in f:
            m = rx.match(line)
            if m and m.group(1).strip():
                t = tuple(int(x) for x in m.group(1).split(","))
                if len(t) == maxlen:
                    hs.add(t)
    os.remove(os.path.join(d, "states.dump"))
    if len(hs) != 4 ** maxlen:
        raise core.MachineryError("ReaderDriver produced %d programs of length %d, expected %d" % (len(hs), maxlen, 4 ** maxlen))
    return ["".join(LETTER[x] for x in h) for h in sorted(hs)], r


def mutate(rnd, b, other):
    b = bytearray(b)
    for _ in range(rnd.choice([1, 1, 1, 2, 3])):
        k = rnd.randrange(8)
        n = len(b)
        if n == 0:
            b = bytearray([rnd.choice(INTERESTING)])
            continue
        i = rnd.randrange(n)
        if k == 0:
            b = b[:i]
        elif k == 1:
            b[i] ^= 1 << rnd.randrange(8)
        elif k == 2:
            b[i] = rnd.choice(INTERESTING)
        elif k == 3:
            b.insert(i, rnd.choice(INTERESTING))
        elif k == 4:
            del b[i]
        elif k == 5:
            j = rnd.randrange(i, min(n, i + 16) + 1)
            b[i:i] = b[i:j]
        elif k == 6:
            j = rnd.randrange(len(other) + 1)
            b = b[:i] + bytearray(other[j:])
        else:
            b[i] = rnd.randrange(256)
    return bytes(b[:4096])


def size_of(c):
    return len(c["bytes"]) if "bytes" in c else 10 ** 9 + c["rep"]["n"]


def run(tier):
    t0 = time.time()
    quick = tier == "quick"
    verdicts = core.Verdicts(PROP)
    seed = core.seed()
    rnd = random.Random(seed * 65537 + 6)
    with core.Workdir("c06") as wd:
        fixed, reps = hostile(wd)
        progs, rmc = programs(wd, 5 if quick else 6)
        few = rnd.sample(progs, 12) + ["NAIANAOANAO", "IIIIOOOO", "AOAIAN"]
        valid, _ = c03.gen(wd, 60 if quick else 600, 0, seed)
        # ---- cases
        cases, meta = [], []

        def add(kind, label, **kw):
            cases.append(dict(idx=len(cases) + 1, targets=TARGETS, **kw))
            meta.append(dict(kind=kind, label=label))
        for r in fixed:
            add("hostile", r["label"], bytes=r["bytes"], progs=progs if r["core"] and (not quick or rnd.random() < 0.25) else few)
        sizes = [2000, 100000] if quick else [2000, 100000, 1000000]
        for r in reps:
            for n in sizes:
                if n > 1000000 and len(r["unit"]) > 8:
                    continue
                if n > 2000 and "appending tables" in r["label"]:
                    continue        # known finding K-C06-1 (quadratic): the larger sizes only cost watchdog time
                add("rep", "%s x %d" % (r["label"], n), rep=dict(pre=r["pre"], unit=r["unit"], n=n, post=r["post"], closing=r["closing"]), progs=few)
        # every proper prefix of the text documents of the catalogue (extreme literals, table slots with typed nulls) and of
        # the literal navigation documents: the tokenizer's look-ahead at the end of input
        textdocs = [bytes(r["bytes"]) for r in fixed if r["label"].startswith("text: extreme")]
        textdocs += [bytes(r["bytes"]) for r in fixed if r["label"].startswith("text: ") and r["core"]][::7]
        for line in open(os.path.join(core.VERIF, "spec", "navdocs.txt")):
            line = line.rstrip("\n").replace("\\n", "\n")
            if line:
                textdocs.append(line.encode())
        for tdoc in (textdocs if not quick else textdocs[seed % 2::2]):
            for k in range(1, len(tdoc)):
                add("truncation", "text document cut short", bytes=list(tdoc[:k]), progs=few[:3])
        nmut = 12000 if quick else 300000
        pool = [bytes(c["bytes"]) for c in valid] + [bytes(r["bytes"]) for r in fixed if len(r["bytes"]) < 600] + textdocs
        for _ in range(nmut):
            a, b = rnd.choice(pool), rnd.choice(pool)
            add("mutation", "mutation", bytes=list(mutate(rnd, a, b)), progs=few[:4])
        # ---- EXEC (sharded workers); the big repetition cases go last in their own shards
        order = list(range(len(cases)))
        nsh = 16
        shards = [[cases[i] for i in order[k::nsh]] for k in range(nsh)]
        res = core.parallel([lambda k=k: run_worker(wd.sub("w%d" % k), "total", shards[k]) for k in range(nsh)], nproc=16)
        obs, deaths = {}, []
        for o, dth in res:
            obs.update(o)
            deaths += dth
        print("phase exec done %.0fs; %d observations, %d worker deaths" % (time.time() - t0, len(obs), len(deaths)))
        # ---- exhaustive short inputs
        maxlen = 2
        enum_cases = []
        for prefix in ([], [0xe0, 0x01, 0x00, 0xea]):
            for first in range(0, 256, 8):
                enum_cases.append(dict(idx=len(enum_cases) + 1, prefix=prefix, first=list(range(first, first + 8)), alphabet=list(range(256)) if True else [],
                                       minlen=0 if first == 0 else 1, maxlen=maxlen))
        if not quick:
            alpha = sorted(set(INTERESTING))
            for prefix in ([], [0xe0, 0x01, 0x00, 0xea]):
                for first in range(0, 256, 4):
                    enum_cases.append(dict(idx=len(enum_cases) + 1, prefix=prefix, first=list(range(first, first + 4)), alphabet=alpha, minlen=3, maxlen=3))
        eshards = core.shard(enum_cases, 16)
        eres = core.parallel([lambda k=k: run_worker(wd.sub("e%d" % k), "totalenum", eshards[k]) for k in range(16)], nproc=16)
        enum_count, enum_bad, enum_maxalloc = 0, [], 0
        for o, dth in eres:
            for x in o.values():
                enum_count += x["count"]
                enum_bad += x["bad"]
                enum_maxalloc = max(enum_maxalloc, x["maxalloc"])
            for dd in dth:
                enum_bad.append(dict(input=list(bytes.fromhex(dd["input"] or "")), driver="process", panic=dd["how"], site="", alloc=0, ms=0))
        expected = sum((len(c["first"]) * (1 + 256) if c["maxlen"] == 2 else len(c["first"]) * len(c["alphabet"]) ** 2) + (1 if c["minlen"] == 0 else 0)
                       for c in enum_cases)
        if not enum_bad and enum_count != expected:
            raise core.MachineryError("enumeration ran %d inputs, expected %d" % (enum_count, expected))
        print("phase enum done %.0fs; %d inputs" % (time.time() - t0, enum_count))
        # ---- JUDGE
        rows = [obs[c["idx"]] for c in cases if c["idx"] in obs]
        jsh = core.shard(rows, 12)

        def judge(k):
            d = wd.sub("judge%d" % k)
            core.write_ndjson(os.path.join(d, "obs.ndjson"), jsh[k])
            core.tlc_eval(d, "Judge_Total", dict(ObsFile="obs.ndjson", VerdictFile="verdict.ndjson"), heap="6g")
            return core.read_ndjson(os.path.join(d, "verdict.ndjson"))
        vs = [v for vsx in core.parallel([lambda k=k: judge(k) for k in range(12) if jsh[k]]) for v in vsx]
        if len(vs) != len(rows):
            raise core.MachineryError("Judge_Total returned %d verdicts for %d observations" % (len(vs), len(rows)))
        found = []      # (case index, driver class, why, site, detail)
        for v in vs:
            for b in v["bad"]:
                found.append((v["idx"], b["driver"], b["why"], b["site"], b))
        for dd in deaths:
            found.append((dd["idx"], "process", dd["how"], "", dict(stderr=dd["stderr"])))
        # one report per (label, driver class, why, site); each confirmed in a fresh worker
        groups = {}
        for idx, drv, why, site, detail in found:
            m = meta[idx - 1]
            label = m["label"] if m["kind"] != "rep" else m["label"].split(" x ")[0]
            key = (label, drv.split(":")[0], why, site)
            if key not in groups or size_of(cases[idx - 1]) < size_of(cases[groups[key][0] - 1]):
                groups[key] = (idx, drv, detail)
        nconf = 0
        unreproduced = []
        print("phase judge done %.0fs; %d failing (input kind, driver, reason, site) groups" % (time.time() - t0, len(groups)))
        for (label, dclass, why, site), (idx, drv, detail) in sorted(groups.items()):
            c = cases[idx - 1]
            nconf += 1
            again, dth = run_worker(wd.sub("confirm%d" % nconf), "total", [c], deadline=40)
            confirmed = bool(dth)
            if not confirmed and idx in again:
                d = wd.sub("cj%d" % nconf)
                core.write_ndjson(os.path.join(d, "obs.ndjson"), [again[idx]])
                core.tlc_eval(d, "Judge_Total", dict(ObsFile="obs.ndjson", VerdictFile="verdict.ndjson"))
                v = core.read_ndjson(os.path.join(d, "verdict.ndjson"))[0]
                confirmed = any(b["driver"].split(":")[0] == dclass and b["why"] == why for b in v["bad"])
            if not confirmed:
                unreproduced.append("%s %s %s" % (label, drv, why))
                continue
            doc = bytes(c["bytes"]) if "bytes" in c else None
            sig = dict(input_kind=label, driver=drv if dclass != "prog" else "prog", why=why, site=site,
                       panic=(detail.get("panic") or "")[:120], input=(doc[:80].hex() if doc is not None else json.dumps(c["rep"])[:200]))
            verdicts.fail(sig, dict(case=c, why=why, driver=drv))
        for b in enum_bad[:20]:
            sig = dict(input_kind="short input", driver=b["driver"], why="panic" if b["panic"] else "resources", site=b["site"], panic=b["panic"][:120], input=bytes(b["input"]).hex())
            verdicts.fail(sig, dict(case=dict(idx=1, bytes=b["input"], progs=["AIANAOA", "IIINNNOOO", "NAIOANAIO"], targets=TARGETS), why=sig["why"], driver=b["driver"]))
        if unreproduced and not verdicts.violations and not verdicts.known:
            # nothing confirmed at all: the run proves nothing either way
            raise core.MachineryError("failures that did not reproduce alone: " + "; ".join(unreproduced[:5]))
        for u in unreproduced[:10]:
            print("NOTE not reproduced alone (not counted): " + u)
        rc = verdicts.report()
        kinds = {}
        for m in meta:
            kinds[m["kind"]] = kinds.get(m["kind"], 0) + 1
        maxalloc = max((r["alloc"] for o in rows for r in o["res"]), default=0)
        core.write_evidence(PROP, tier, "exploration", dict(
            states=rmc["distinct"], transitions=rmc["generated"], evaluations=len(rows) + enum_count,
            distinct_nontrivial=len({m["label"] for m in meta}) + len(progs),
            rule="inputs = %d hostile catalogue documents + %d repetition families x sizes %s + %d seeded mutations + all %d byte strings "
                 "(lengths <= %d, with and without version marker%s); drivers = traverse, skip, step-in, %d call programs (every sequence of "
                 "length %d over N/I/O/A) on a quarter of the core documents and 15 elsewhere, Decoder, Unmarshal x %d targets"
                 % (len(fixed), len(reps), sizes, nmut, enum_count, maxlen, "" if quick else "; length 3 over a 70-byte alphabet", len(progs), len(progs[0]), len(TARGETS)),
            case_kinds=kinds, worker_deaths=len(deaths), driver_runs=sum(len(o["res"]) for o in rows), max_alloc_bytes=maxalloc,
            enum_max_alloc_bytes=enum_maxalloc, rejected=len(groups) + len(enum_bad), known_findings=verdicts.known,
            samples=[dict(label=meta[c["idx"] - 1]["label"], input=(bytes(c["bytes"])[:60].hex() if "bytes" in c else c["rep"]["n"])) for c in cases[::max(1, len(cases) // 6)]]),
            time.time() - t0, len(verdicts.violations),
            assumptions=["the resource envelope (8 MiB + 1 KiB per input byte, 5 s + 50 us per byte, per driver) is what 'in proportion' means here",
                         "panics are recovered inside the worker; a fatal runtime error, an out-of-memory kill (12 GiB address space) or the "
                         "20 s per-driver watchdog ends the worker and fails the input it was running"])
    return rc


def replay(path):
    with open(path) as f:
        rp = json.load(f)
    c = rp["case"]["case"]
    c["idx"] = 1
    with core.Workdir("c06r") as wd:
        obs, deaths = run_worker(wd.sub("w"), "total", [c], deadline=40)
        bad = [dict(driver="process", why=d["how"]) for d in deaths]
        if 1 in obs:
            d = wd.sub("j")
            core.write_ndjson(os.path.join(d, "obs.ndjson"), [obs[1]])
            core.tlc_eval(d, "Judge_Total", dict(ObsFile="obs.ndjson", VerdictFile="verdict.ndjson"))
            bad += core.read_ndjson(os.path.join(d, "verdict.ndjson"))[0]["bad"]
    if bad:
        print("VIOLATION property=%s replay=%s" % (PROP, path))
        print("  " + json.dumps(bad[0])[:300])
        return 1
    print("replay: holds")
    return 0
