"""C05 — copying a Reader into a Writer preserves data across formats and symbol tables.

GEN  : source documents = C10's stream histories (local symbol tables, imports, appends, $n references,
       version markers; binary and text, with catalogues) + catalogue/random forests rendered by the
       specification's binary encoder and text printer (every type, typed nulls, annotations, quoted '$5').
       Expected values: the specification's decoder on the source (symbols by text wherever known).
EXEC : real Reader (with the catalogue) -> the README copy loop completed to all types -> real text, pretty
       and binary Writers -> Finish.
JUDGE: the specification's decoder on each output must accept it and recover exactly the source's values
       (Judge_RT c04 clause): the result must not depend on the source's symbol IDs.
"""
import json
import os
import random
import time

from vlib import core, rt
from checks import c03, c10

PROP = "C05"


def all_text_known(forest):
    def tok(t):
        return t["k"] == "text" or t["sid"] == 0

    def ok(v):
        if not all(tok(a) for a in v["ann"]):
            return False
        if v["null"]:
            return True
        if v["t"] == "symbol":
            return tok(v["v"])
        if v["t"] in ("list", "sexp"):
            return all(ok(k) for k in v["v"])
        if v["t"] == "struct":
            return all(tok(f["name"]) and ok(f["val"]) for f in v["v"])
        return True
    return all(ok(v) for v in forest)


def sources(wd, tier, seed):
    import checks.c02 as c02
    out = []
    n = 300 if tier == "quick" else 6000
    for c in c03.gen(wd, n, 1, seed)[0]:
        out.append(dict(forest=c["forest"], bytes=c["bytes"], mode="binary", cat=[], origin="binary-forest"))
    d2 = wd.sub("gentext")
    a = core.streams(n, 160, seed, 51)
    b = core.streams(n, 400, seed, 52, hi=1 << 16)
    core.write_ndjson(os.path.join(d2, "streams.ndjson"), [dict(s=x["s"], c=y["s"]) for x, y in zip(a, b)])
    core.tlc_eval(d2, "Gen_TextEnc", dict(StreamFile="streams.ndjson", OutFile="cases.ndjson", SlotReps=1), heap="8g")
    for c in core.read_ndjson(os.path.join(d2, "cases.ndjson")):
        out.append(dict(forest=c["forest"], bytes=c["bytes"], mode="text", cat=[], origin="text-forest"))
    # symbol-table histories
    rnd = random.Random(seed * 15485863 + 5)
    hists = []
    for _ in range(400 if tier == "quick" else 8000):
        k = rnd.randint(2, 7)
        hists.append(dict(cat=rnd.randint(1, 6),
                          h=[rnd.choice([rnd.randint(1, c10.NTABLES), rnd.randint(c10.NTABLES + 1, c10.NITEMS), rnd.randint(c10.NTABLES + 1, c10.NITEMS)]) for _ in range(k)]))
    nsh = 8
    shards = core.shard(hists, nsh)

    def gen(k):
        d = wd.sub("genh%d" % k)
        core.write_ndjson(os.path.join(d, "hists.ndjson"), shards[k])
        core.write_ndjson(os.path.join(d, "streams.ndjson"), core.streams(16, 400, seed, 500 + k, hi=1 << 16))
        core.tlc_eval(d, "Gen_SymCtx", dict(HistFile="hists.ndjson", StreamFile="streams.ndjson", OutFile="cases.ndjson", MaxLen=0),
                      heap="4g", extra=["INIT Init", "NEXT Next", "CHECK_DEADLOCK FALSE"])
        return core.read_ndjson(os.path.join(d, "cases.ndjson"))
    for cs in core.parallel([lambda k=k: gen(k) for k in range(nsh)]):
        for c in cs:
            if c["expect"] == "accept" and c["forest"]:
                out.append(dict(forest=c["forest"], bytes=c["bytes"], mode=c["fmt"], cat=c["cat"], origin="symtab-history"))
    return [s for s in out if all_text_known(s["forest"])]


def run(tier):
    t0 = time.time()
    verdicts = core.Verdicts(PROP)
    with core.Workdir("c05") as wd:
        srcs = sources(wd, tier, core.seed())
        vs, obs = rt.exec_and_judge(wd, srcs, sub="copy", tag="cp")
        bad = [(v, o) for v, o in zip(vs, obs) if v["c04"] != "ok"]
        if bad:
            idxs = sorted({v["gidx"] for v, _ in bad})
            av, ao = rt.exec_and_judge(wd, [srcs[i] for i in idxs], sub="copy", tag="confirm")
            again = {(idxs[v["gidx"]], v["mode"]): (v, o) for v, o in zip(av, ao)}
            for v, o in bad:
                a = again.get((v["gidx"], v["mode"]))
                if a is None or a[0]["c04"] == "ok":
                    raise core.MachineryError("failure on source %d did not reproduce" % v["gidx"])
                s = srcs[v["gidx"]]
                sig = dict(origin=s["origin"], source_format=s["mode"], dest=v["mode"], symptom=a[0]["c04"],
                           error=a[1].get("werr", "")[:200], panic=a[1].get("wpanic", "")[:200],
                           features=rt.features(s["forest"])[:40])
                verdicts.fail(sig, dict(source=s, dest=v["mode"], verdict=a[0], out=a[1].get("out"), werr=a[1].get("werr")))
        rc = verdicts.report()
        origins = {}
        for s in srcs:
            origins[s["origin"] + "/" + s["mode"]] = origins.get(s["origin"] + "/" + s["mode"], 0) + 1
        core.write_evidence(PROP, tier, "model_checking", dict(
            states=len(srcs), transitions=len(vs), traces_validated_against_impl=len(vs), evaluations=len(vs),
            distinct_nontrivial=sum(1 for s in srcs if s["origin"] == "symtab-history"),
            rule="sources = spec-encoded binary forests + spec-printed text forests + symbol-table stream histories (binary "
                 "and text, with catalogues) whose symbols all have known text; each copied into text, pretty and binary; "
                 "non-trivial = sources carrying their own symbol tables", sources=origins,
            rejected=len(bad), known_findings=verdicts.known,
            samples=[dict(origin=s["origin"], fmt=s["mode"],
                          doc=(bytes(s["bytes"]).hex() if s["mode"] == "binary" else bytes(s["bytes"]).decode("utf8", "replace"))[:160])
                     for s in srcs[:2] + srcs[-2:]]),
            time.time() - t0, len(verdicts.violations),
            assumptions=["the copy loop is the README loop completed to all types (typed nulls via WriteNullType, ints by IntSize)",
                         "sources with symbols of unknown text (other than $0) are not used: the property compares those by ID"])
    return rc


def replay(path):
    with open(path) as f:
        rp = json.load(f)
    c = rp["case"]
    with core.Workdir("c05r") as wd:
        vs, obs = rt.exec_and_judge(wd, [c["source"]], sub="copy", nshards=1)
    b = [v for v in vs if v["mode"] == c["dest"] and v["c04"] != "ok"]
    if b:
        print("VIOLATION property=%s replay=%s" % (PROP, path))
        print("  " + json.dumps(b[0]))
        return 1
    print("replay: holds")
    return 0
