"""Registry of the registered checks: property id -> MANIFEST fields."""
TRUST = ("Trusted base: TLC 1.8.0; the Go harness drivers/projections (straight-line, no Ion logic); "
         "the reading of Ion 1.0 transcribed in spec/ (DESIGN.md Appendix D). Scope: the bounds stated in evidence.")

REGISTRY = {
    "C12": dict(
        level="model_checking",
        text="WriterProto.tla is model-checked by TLC (Sticky, ErrSet, FinishOk, AppendOnly, no disabled call) and "
             "bound to ion-go in both directions: every call sequence up to a bounded length over a 14-call alphabet "
             "(legal or not) plus TLC -simulate sequences over the full interface is replayed on each writer "
             "configuration, and every recorded call (result, IsInStruct, emitted bytes at each Finish, "
             "determinism) is trace-validated by TLC against the specification, the bytes being decoded by the "
             "specification's own Ion decoders.",
        note=TRUST,
        technique="TLA+ spec + TLC model checking; TLC-generated call programs replayed on ion-go; TLC trace validation",
        design_ref="DESIGN.md section 5 C12"),
}

NOT_APPLICABLE = {}
