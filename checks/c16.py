"""C16 — Marshal then Unmarshal returns an equal Go value, in text and in binary.

GEN  : seeded values (boundary numbers of every width, empty vs nil collections, nested pointers, non-ASCII
       text) of ~40 Go types assembled from the supported kinds and tag options (rename, omitempty, '-',
       symbol, clob, sexp, annotations, embedded structs by value and pointer, maps, interfaces, Timestamp,
       *Decimal, time.Time, big.Int); a reflect walker projects each value to a self-describing tree.
EXEC : MarshalText (twice), MarshalBinary, Unmarshal of each output into a fresh value of the same type.
JUDGE: Judge_Marshal (TLC): spec/Marshal.tla computes the Ion value the Go value must marshal to; the
       specification's decoders read both outputs; the round-tripped Go value must denote the same Ion value.
"""
import json
import os
import time

from vlib import core

PROP = "C16"
TYPES = ["bool", "int", "int8", "int16", "int32", "int64", "uint", "uint8", "uint16", "uint32", "uint64", "float32", "float64", "string",
         "bytes", "array4", "ints", "strings", "arr3", "map", "mapiface", "iface", "ifaces", "ptrint", "ptrptr", "timestamp",
         "decimalptr", "time", "bigint", "bigintptr", "scalars", "tags", "coll", "ptr", "ifacestruct", "inner", "embed", "embedptr",
         "special", "annint", "annstruct", "annlist", "nested", "deep", "case", "mapstruct"]


def judge(wd, cases, nshards=14, tag="ms"):
    nshards = max(1, min(nshards, len(cases) // 60 + 1))
    shards = core.shard(cases, nshards)

    def job(k):
        d = wd.sub("%s%d" % (tag, k))
        core.write_ndjson(os.path.join(d, "cases.ndjson"), shards[k])
        core.run_harness("marshal", os.path.join(d, "cases.ndjson"), os.path.join(d, "obs.ndjson"))
        core.tlc_eval(d, "Judge_Marshal", dict(ObsFile="obs.ndjson", VerdictFile="verdict.ndjson"), heap="4g")
        vs = core.read_ndjson(os.path.join(d, "verdict.ndjson"))
        obs = core.read_ndjson(os.path.join(d, "obs.ndjson"))
        if len(vs) != len(shards[k]):
            raise core.MachineryError("Judge_Marshal returned %d verdicts for %d cases" % (len(vs), len(shards[k])))
        return [(c, v, o) for c, v, o in zip(shards[k], vs, obs)]
    return [x for xs in core.parallel([lambda k=k: job(k) for k in range(nshards)]) for x in xs]


def run(tier):
    t0 = time.time()
    per = 25 if tier == "quick" else 500
    verdicts = core.Verdicts(PROP)
    cases = [dict(type=t, seed=core.seed() * 100003 + k) for t in TYPES for k in range(per)]
    with core.Workdir("c16") as wd:
        res = judge(wd, cases)
        bad = [(c, v, o) for c, v, o in res if v["why"] != "ok"]
        if bad:
            again = {(c["type"], c["seed"]): (a, ao) for c, a, ao in judge(wd, [c for c, _, _ in bad], tag="confirm")}
            unreproduced = []
            for c, v, o in bad:
                a, ao = again[(c["type"], c["seed"])]
                if a["why"] == "ok":
                    unreproduced.append(c)      # e.g. a reused buffer that happened to be fresh the second time
                    continue
                sig = dict(type=c["type"], why=a["why"], text=bytes(ao["text"]).decode("utf8", "replace")[:200],
                           err=(ao["texterr"] or ao["binerr"] or ao["backtexterr"] or ao["backbinerr"])[:160], panic=ao["panic"][:160])
                verdicts.fail(sig, dict(case=c, why=a["why"], text=ao["text"]))
            if unreproduced and not verdicts.violations and not verdicts.known:
                raise core.MachineryError("failure on %s did not reproduce" % unreproduced[0])
            for c in unreproduced[:5]:
                print("NOTE not reproduced in a second run (not counted): %s" % c)
        rc = verdicts.report()
        core.write_evidence(PROP, tier, "model_checking", dict(
            states=len(cases), transitions=4 * len(cases), traces_validated_against_impl=len(cases), evaluations=4 * len(cases),
            distinct_nontrivial=len({bytes(o["text"]) for _, _, o in res}),
            rule="cases = %d Go types x %d seeded values; each: MarshalText, MarshalBinary, Unmarshal of both; distinct = distinct "
                 "MarshalText outputs" % (len(TYPES), per), types=TYPES, rejected=len(bad), known_findings=verdicts.known,
            samples=[dict(type=c["type"], text=bytes(o["text"]).decode("utf8", "replace")[:200]) for c, _, o in res[::max(1, len(res) // 6)][:6]]),
            time.time() - t0, len(verdicts.violations),
            assumptions=["the reflect walker (harness/gvalue.go) reports kinds, nil-ness and tags as written",
                         "equality of the round-tripped value is judged at the Ion level (omitempty and interface{} dynamic types are documented losses)"])
    return rc


def replay(path):
    with open(path) as f:
        rp = json.load(f)
    with core.Workdir("c16r") as wd:
        res = judge(wd, [rp["case"]["case"]], nshards=1)
    if res[0][1]["why"] != "ok":
        print("VIOLATION property=%s replay=%s" % (PROP, path))
        print("  " + res[0][1]["why"])
        return 1
    print("replay: holds")
    return 0
