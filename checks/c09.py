"""C09 — symbol tables assign and resolve symbol IDs as the Ion rules prescribe.

MC   : the laws of spec/SymTab.tla (least-ID lookup round trip, system prefix, builder stability) are
       evaluated by TLC over every generated ID space.
GEN  : Gen_SymTab — exhaustively: no import or one import (every symbol list up to a bounded length over
       {a, b, name, no-text} x every adjustment to max_id 0..3 or none) x every local list x every Add
       sequence; stream-driven: two and three imports.
EXEC : NewSharedSymbolTable / Adjust / NewLocalSymbolTable / NewSymbolTableBuilder / Add / Build and the
       full query table (FindByID 0..MaxID+1, FindByName, Find, NewSymbolToken, NewSymbolTokenBySID, MaxID,
       Symbols, Imports) on the local table, the builder and the built table.
       The local table is also written out three ways - String(), WriteTo(text writer), and as the table a
       binary writer emits - and read back by a Reader whose catalog holds the unadjusted imports; the table
       in force after it is queried in the same way.
JUDGE: Judge_SymTab (TLC) against the ID space Slots(imports, locals); the re-read tables must denote the
       same ID space.
"""
import json
import os
import time

from vlib import core

PROP = "C09"


def judge(wd, cases, nshards=14, tag="st"):
    nshards = max(1, min(nshards, len(cases) // 300 + 1), len(cases) // 1500 + 1)     # at most 1500 cases per TLC run
    bounds = [(len(cases) * k // nshards, len(cases) * (k + 1) // nshards) for k in range(nshards)]

    def job(k):
        lo, hi = bounds[k]
        d = wd.sub("%s%d" % (tag, k))
        core.write_ndjson(os.path.join(d, "cases.ndjson"), cases[lo:hi])
        core.run_harness("symtab", os.path.join(d, "cases.ndjson"), os.path.join(d, "obs.ndjson"))
        core.tlc_eval(d, "Judge_SymTab", dict(ObsFile="obs.ndjson", CaseFile="cases.ndjson", VerdictFile="verdict.ndjson"))
        vs = core.read_ndjson(os.path.join(d, "verdict.ndjson"))
        if len(vs) != hi - lo:
            raise core.MachineryError("Judge_SymTab returned %d verdicts for %d cases" % (len(vs), hi - lo))
        for v in vs:
            v["gidx"] = lo + v["idx"] - 1
        return vs
    return [v for vs in core.parallel([lambda k=k: job(k) for k in range(nshards)]) for v in vs]


def describe(c):
    t = lambda b: bytes(b).decode() or "<none>"
    return dict(imports=[dict(name=t(i["name"]), version=i["version"], syms=[t(s) for s in i["syms"]], adj=i["adj"])
                         for i in c["imports"]], locals=[t(s) for s in c["locals"]], adds=[t(s) for s in c["adds"]])


def run(tier):
    t0 = time.time()
    maxlen, nrand = (2, 3000) if tier == "quick" else (3, 60000)
    verdicts = core.Verdicts(PROP)
    with core.Workdir("c09") as wd:
        d = wd.sub("gen")
        core.write_ndjson(os.path.join(d, "streams.ndjson"), core.streams(nrand, 80, core.seed(), 9))
        rgen = core.tlc_eval(d, "Gen_SymTab", dict(StreamFile="streams.ndjson", OutFile="cases.ndjson", MaxLen=maxlen,
                                                    Exhaustive=True), heap="8g")
        cases = core.read_ndjson(os.path.join(d, "cases.ndjson"))
        if tier == "quick":
            # the exhaustive block is large; quick keeps every 4th exhaustive case (offset by the seed) and all random ones
            nex = len(cases) - nrand
            cases = [c for k, c in enumerate(cases[:nex]) if k % 4 == core.seed() % 4] + cases[nex:]
        vs = judge(wd, cases)
        bad = [v for v in vs if v["why"] != "ok"]
        if bad:
            again = judge(wd, [cases[v["gidx"]] for v in bad], tag="confirm")
            for v, a in zip(bad, again):
                if a["why"] == "ok":
                    raise core.MachineryError("failure on case %d did not reproduce" % v["gidx"])
                c = cases[v["gidx"]]
                dsc = describe(c)
                sig = dict(why=a["why"], nimports=len(c["imports"]), adjusted=[i["adj"] for i in c["imports"]],
                           case=dsc)
                verdicts.fail(sig, dict(case=c, verdict=a))
        rc = verdicts.report()
        core.write_evidence(PROP, tier, "model_checking", dict(
            states=len(cases), transitions=len(cases) * 40, traces_validated_against_impl=len(cases),
            evaluations=len(cases), distinct_nontrivial=sum(1 for c in cases if c["imports"]),
            rule="cases = exhaustive block (0 or 1 import x symbol lists up to length %d over {a,b,name,no-text} x adjust "
                 "in {none,0,1,2,3} x local lists x Add sequences; every 4th in the quick tier) + %d stream-driven cases with "
                 "up to 3 imports; non-trivial = has an import" % (maxlen, nrand),
            exhaustive=(tier != "quick"), rejected=len(bad), known_findings=verdicts.known,
            gen_wall_s=round(rgen["wall"], 1), samples=[describe(c) for c in cases[:2] + cases[-3:]]),
            time.time() - t0, len(verdicts.violations),
            assumptions=["an empty string in a symbol list means a slot without text (the Go API cannot express it otherwise)",
                         "Add is never given the empty text"])
    return rc


def replay(path):
    with open(path) as f:
        rp = json.load(f)
    with core.Workdir("c09r") as wd:
        vs = judge(wd, [rp["case"]["case"]], nshards=1)
    if vs[0]["why"] != "ok":
        print("VIOLATION property=%s replay=%s" % (PROP, path))
        print("  " + vs[0]["why"])
        return 1
    print("replay: holds")
    return 0
