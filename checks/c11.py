"""C11 — binary writers with shared or fixed tables emit resolvable, minimal symbols.

GEN  : Gen_SymWrite — shared-table sets (overlapping text, adjusted max_id with gaps and truncation) and
       fixed local tables (with imports), x value sequences drawing symbols from inside and outside those
       tables as value, field name and annotation (stream-driven).
EXEC : NewBinaryWriter(out, ssts...) / NewBinaryWriterLST(out, table), write, Finish.
JUDGE: Judge_SymWrite (TLC): the specification's decoder, holding the same tables as its catalogue,
       recovers the values; the single local symbol table declares exactly the imports (name, version,
       max_id, order) and defines locally only unimported, distinct, used text; with a fixed table, text
       outside it makes the writer fail.
"""
import json
import os
import time

from vlib import core

PROP = "C11"


def judge(wd, cases, nshards=14, tag="sw"):
    nshards = max(1, min(nshards, len(cases) // 200 + 1))
    bounds = [(len(cases) * k // nshards, len(cases) * (k + 1) // nshards) for k in range(nshards)]

    def job(k):
        lo, hi = bounds[k]
        d = wd.sub("%s%d" % (tag, k))
        core.write_ndjson(os.path.join(d, "cases.ndjson"), cases[lo:hi])
        core.run_harness("symwrite", os.path.join(d, "cases.ndjson"), os.path.join(d, "obs.ndjson"))
        core.tlc_eval(d, "Judge_SymWrite", dict(ObsFile="obs.ndjson", CaseFile="cases.ndjson", VerdictFile="verdict.ndjson"))
        vs = core.read_ndjson(os.path.join(d, "verdict.ndjson"))
        obs = core.read_ndjson(os.path.join(d, "obs.ndjson"))
        if len(vs) != hi - lo:
            raise core.MachineryError("Judge_SymWrite returned %d verdicts for %d cases" % (len(vs), hi - lo))
        for v, o in zip(vs, obs):
            v["gidx"] = lo + v["idx"] - 1
            v["obs"] = o
        return vs
    return [v for vs in core.parallel([lambda k=k: job(k) for k in range(nshards)]) for v in vs]


def describe(c):
    t = lambda b: bytes(b).decode()
    return dict(mode=c["mode"], imports=[dict(name=t(i["name"]), version=i["version"], syms=[t(s) for s in i["syms"]], adj=i["adj"])
                                         for i in c["imports"]], locals=[t(s) for s in c["locals"]])


def run(tier):
    t0 = time.time()
    n = 3000 if tier == "quick" else 60000
    verdicts = core.Verdicts(PROP)
    with core.Workdir("c11") as wd:
        d = wd.sub("gen")
        core.write_ndjson(os.path.join(d, "streams.ndjson"), core.streams(n, 100, core.seed(), 11))
        rgen = core.tlc_eval(d, "Gen_SymWrite", dict(StreamFile="streams.ndjson", OutFile="cases.ndjson"), heap="6g")
        cases = core.read_ndjson(os.path.join(d, "cases.ndjson"))
        vs = judge(wd, cases)
        bad = [v for v in vs if v["why"] != "ok"]
        if bad:
            again = judge(wd, [cases[v["gidx"]] for v in bad], tag="confirm")
            for v, a in zip(bad, again):
                if a["why"] == "ok":
                    raise core.MachineryError("failure on case %d did not reproduce" % v["gidx"])
                c = cases[v["gidx"]]
                sig = dict(why=a["why"], werr=a["obs"]["werr"][:160], table=describe(c))
                verdicts.fail(sig, dict(case=c, verdict=dict(why=a["why"]), out=a["obs"]["out"], werr=a["obs"]["werr"]))
        rc = verdicts.report()
        core.write_evidence(PROP, tier, "model_checking", dict(
            states=len(cases), transitions=len(cases), traces_validated_against_impl=len(cases), evaluations=len(cases),
            distinct_nontrivial=len({json.dumps(c, sort_keys=True) for c in cases if c["imports"]}),
            rule="cases = stream-driven (shared-table set | fixed table with imports) x value sequences drawing symbols from "
                 "inside and outside the tables; non-trivial = distinct cases with at least one import",
            modes=dict(shared=sum(1 for c in cases if c["mode"] == "shared"), fixed=sum(1 for c in cases if c["mode"] == "fixed")),
            rejected=len(bad), known_findings=verdicts.known, gen_wall_s=round(rgen["wall"], 1),
            samples=[describe(c) for c in cases[:3]]),
            time.time() - t0, len(verdicts.violations),
            assumptions=["a Reader 'holding the same tables in its catalog' is represented by the specification's decoder given that catalogue"])
    return rc


def replay(path):
    with open(path) as f:
        rp = json.load(f)
    with core.Workdir("c11r") as wd:
        vs = judge(wd, [rp["case"]["case"]], nshards=1)
    if vs[0]["why"] != "ok":
        print("VIOLATION property=%s replay=%s" % (PROP, path))
        print("  " + vs[0]["why"])
        return 1
    print("replay: holds")
    return 0
